/* LD_PRELOAD shim: makes the SipHash keys of every std HashMap of the cteepbd binary a function of
 * VERIF_HASH_SEED (std resolves getrandom through a weak, interposable symbol). */
#include <stddef.h>
#include <stdlib.h>
#include <string.h>
#include <sys/types.h>
ssize_t getrandom(void *buf, size_t len, unsigned int flags) {
    const char *s = getenv("VERIF_HASH_SEED");
    unsigned long long seed = s ? strtoull(s, NULL, 10) : 0ULL;
    unsigned long long k[2] = { (seed + 1ULL) * 0x9E3779B97F4A7C15ULL, 0xD1B54A32D192ED03ULL ^ seed };
    unsigned char *p = (unsigned char *)buf;
    for (size_t i = 0; i < len; i++) p[i] = ((unsigned char *)k)[i % 16] ^ (unsigned char)(i / 16);
    (void)flags;
    return (ssize_t)len;
}
