//! Reference model of the EN ISO 52000-1 balance (eqs. (2), (9)-(14), (20)-(28), (32)), f64, written from
//! the standard's equations and the documented assumptions of the subject — no code shared with it.
//!
//! Output: a flat map with the same path naming as the generic walker produces for the subject's result
//! (`balance_cr.<carrier>...`, `balance...`, `balance_m2...`, `rer`, `k_exp`, `arearef`).

use std::collections::BTreeMap;

use cteepbd::types::{Energy, HasValues};
use cteepbd::{Components, Factors};

pub type Out = BTreeMap<String, f64>;

#[derive(Clone, Copy, Default, Debug)]
struct W {
    ren: f64,
    nren: f64,
    co2: f64,
}
impl W {
    fn scale(self, k: f64) -> W {
        W { ren: self.ren * k, nren: self.nren * k, co2: self.co2 * k }
    }
    fn add(self, o: W) -> W {
        W { ren: self.ren + o.ren, nren: self.nren + o.nren, co2: self.co2 + o.co2 }
    }
    fn sub(self, o: W) -> W {
        W { ren: self.ren - o.ren, nren: self.nren - o.nren, co2: self.co2 - o.co2 }
    }
}

#[derive(Debug, Clone, PartialEq)]
pub enum RefErr {
    MissingFactor(String),
    WrongInput(String),
}

struct Fact {
    carrier: String,
    source: String,
    dest: String,
    step: String,
    w: W,
}

fn factors(f: &Factors) -> Vec<Fact> {
    f.wdata
        .iter()
        .map(|x| Fact {
            carrier: format!("{}", x.carrier),
            source: format!("{}", x.source),
            dest: format!("{}", x.dest),
            step: format!("{}", x.step),
            w: W { ren: x.ren as f64, nren: x.nren as f64, co2: x.co2 as f64 },
        })
        .collect()
}

/// first matching line wins (user lines precede derived ones)
fn find(fs: &[Fact], c: &str, s: &str, d: &str, st: &str) -> Result<W, RefErr> {
    fs.iter().find(|f| f.carrier == c && f.source == s && f.dest == d && f.step == st).map(|f| f.w).ok_or_else(|| RefErr::MissingFactor(format!("{c},{s},{d},{st}")))
}

fn src_of(prod_source: &str) -> &'static str {
    if prod_source == "EL_COGEN" {
        "COGEN"
    } else {
        "INSITU"
    }
}

fn carrier_of_source(s: &str) -> &'static str {
    match s {
        "EL_INSITU" | "EL_COGEN" => "ELECTRICIDAD",
        "TERMOSOLAR" => "TERMOSOLAR",
        _ => "EAMBIENTE",
    }
}

fn is_epb(s: &str) -> bool {
    s != "NEPB" && s != "COGEN"
}

fn addv(a: &mut Vec<f64>, v: &[f32]) {
    if a.len() < v.len() {
        a.resize(v.len(), 0.0);
    }
    for (i, x) in v.iter().enumerate() {
        a[i] += *x as f64;
    }
}

fn putw(o: &mut Out, p: &str, w: W) {
    o.insert(format!("{p}.ren"), w.ren);
    o.insert(format!("{p}.nren"), w.nren);
    o.insert(format!("{p}.co2"), w.co2);
}

fn putv(o: &mut Out, p: &str, v: &[f64]) {
    for (i, x) in v.iter().enumerate() {
        o.insert(format!("{p}[{i}]"), *x);
    }
}

/// load matching factor, eq. (32) / table B.32 with k = n = 1
fn f_match(pr: f64, us: f64, lm: bool) -> f64 {
    if !lm || pr <= 0.0 || us <= 0.0 {
        1.0
    } else {
        let x = pr / us;
        (x + 1.0 / x - 1.0) / (x + 1.0 / x)
    }
}

struct CarrierIn {
    epus_by_srv: BTreeMap<String, Vec<f64>>,
    nepus: Vec<f64>,
    cgn: Vec<f64>,
    prod: BTreeMap<String, Vec<f64>>,
}

pub fn balance(comps: &Components, wf: &Factors, k_exp: f64, area: f64, lm: bool) -> Result<Out, RefErr> {
    let mut fs = factors(wf);
    let n = comps.data.iter().filter(|c| !c.is_out()).map(|c| c.num_steps()).next().unwrap_or(0);

    // ---- inputs per carrier
    let mut cin: BTreeMap<String, CarrierIn> = BTreeMap::new();
    let blank = || CarrierIn { epus_by_srv: BTreeMap::new(), nepus: vec![0.0; n], cgn: vec![0.0; n], prod: BTreeMap::new() };
    for c in &comps.data {
        match c {
            Energy::Used(e) => {
                let ci = cin.entry(format!("{}", e.carrier)).or_insert_with(blank);
                let srv = format!("{}", e.service);
                if is_epb(&srv) {
                    addv(ci.epus_by_srv.entry(srv).or_insert_with(|| vec![0.0; n]), &e.values);
                } else if srv == "COGEN" {
                    addv(&mut ci.cgn, &e.values);
                } else {
                    addv(&mut ci.nepus, &e.values);
                }
            }
            Energy::Aux(e) => {
                let ci = cin.entry("ELECTRICIDAD".into()).or_insert_with(blank);
                let srv = format!("{}", e.service);
                if is_epb(&srv) {
                    addv(ci.epus_by_srv.entry(srv).or_insert_with(|| vec![0.0; n]), &e.values);
                } else {
                    addv(&mut ci.nepus, &e.values);
                }
            }
            Energy::Prod(e) => {
                let s = format!("{}", e.source);
                let ci = cin.entry(carrier_of_source(&s).into()).or_insert_with(blank);
                addv(ci.prod.entry(s).or_insert_with(|| vec![0.0; n]), &e.values);
            }
            Energy::Out(_) => {}
        }
    }

    // ---- derived factors of cogenerated electricity: weighted cogeneration input / cogenerated electricity
    let has_chp = comps.data.iter().any(|c| matches!(c, Energy::Prod(e) if format!("{}", e.source) == "EL_COGEN"));
    if has_chp {
        let prod_an: f64 = cin.get("ELECTRICIDAD").and_then(|c| c.prod.get("EL_COGEN")).map(|v| v.iter().sum()).unwrap_or(0.0);
        let fuel_lines: std::collections::BTreeSet<String> = comps
            .data
            .iter()
            .filter_map(|x| match x {
                Energy::Used(e) if format!("{}", e.service) == "COGEN" => Some(format!("{}", e.carrier)),
                _ => None,
            })
            .collect();
        if fuel_lines.is_empty() {
            return Err(RefErr::WrongInput("cogeneration without fuel".into()));
        }
        let mut f_a = W::default();
        for fuel in &fuel_lines {
            let an: f64 = cin.get(fuel).map(|c| c.cgn.iter().sum()).unwrap_or(0.0);
            let ff = find(&fs, fuel, "RED", "SUMINISTRO", "A")?;
            let ratio = if prod_an > 0.0 { an / prod_an } else { 0.0 };
            f_a = f_a.add(ff.scale(ratio));
        }
        let f_b = find(&fs, "ELECTRICIDAD", "RED", "SUMINISTRO", "A")?;
        for (dest, step, w) in [("SUMINISTRO", "A", f_a), ("A_NEPB", "A", f_a), ("A_RED", "A", f_a), ("A_NEPB", "B", f_b), ("A_RED", "B", f_b)] {
            fs.push(Fact { carrier: "ELECTRICIDAD".into(), source: "COGEN".into(), dest: dest.into(), step: step.into(), w });
        }
    }

    let mut o = Out::new();
    // totals
    let mut t_used_epus = 0.0;
    let mut t_used_nepus = 0.0;
    let mut t_used_cgn = 0.0;
    let mut t_prod = 0.0;
    let (mut t_del, mut t_del_onst, mut t_del_grid) = (0.0, 0.0, 0.0);
    let (mut t_exp, mut t_exp_grid, mut t_exp_nepus) = (0.0, 0.0, 0.0);
    let (mut t_a, mut t_b, mut t_wdel, mut t_wexp_a, mut t_wexp) = (W::default(), W::default(), W::default(), W::default(), W::default());
    let mut t_epus_by_srv: BTreeMap<String, f64> = BTreeMap::new();
    let mut t_a_by_srv: BTreeMap<String, W> = BTreeMap::new();
    let mut t_b_by_srv: BTreeMap<String, W> = BTreeMap::new();
    let mut t_by_src: BTreeMap<String, f64> = BTreeMap::new();
    let mut t_epus_by_src: BTreeMap<String, f64> = BTreeMap::new();
    let mut t_epus_by_srv_by_src: BTreeMap<(String, String), f64> = BTreeMap::new();

    for (cr, ci) in &cin {
        let p = format!("balance_cr.{cr}");
        // (9) use per step
        let mut epus = vec![0.0; n];
        for v in ci.epus_by_srv.values() {
            for i in 0..n {
                epus[i] += v[i];
            }
        }
        let mut pr = vec![0.0; n];
        for v in ci.prod.values() {
            for i in 0..n {
                pr[i] += v[i];
            }
        }
        let fm: Vec<f64> = (0..n).map(|i| f_match(pr[i], epus[i], lm)).collect();
        // (10)-(12) allocation by priority: on-site electricity before cogenerated electricity
        let order: Vec<&String> = {
            let mut k: Vec<&String> = ci.prod.keys().collect();
            k.sort_by_key(|s| if s.as_str() == "EL_COGEN" { 1 } else { 0 });
            k
        };
        let mut left = epus.clone();
        let mut used_j: BTreeMap<String, Vec<f64>> = BTreeMap::new();
        let mut pr_used = vec![0.0; n];
        for s in order {
            let pj = &ci.prod[s];
            let mut u = vec![0.0; n];
            for i in 0..n {
                let usmax = pj[i].min(left[i]);
                left[i] -= usmax;
                u[i] = usmax * fm[i];
                pr_used[i] += u[i];
            }
            used_j.insert(s.clone(), u);
        }
        // (13), (14) exported and delivered
        let exp: Vec<f64> = (0..n).map(|i| pr[i] - pr_used[i]).collect();
        let exp_nepus: Vec<f64> = (0..n).map(|i| exp[i].min(ci.nepus[i])).collect();
        let exp_grid: Vec<f64> = (0..n).map(|i| exp[i] - exp_nepus[i]).collect();
        let del_grid: Vec<f64> = (0..n).map(|i| epus[i] - pr_used[i]).collect();
        let mut onst = vec![0.0; n];
        for (s, v) in &ci.prod {
            if src_of(s) == "INSITU" {
                for i in 0..n {
                    onst[i] += v[i];
                }
            }
        }
        let sum = |v: &Vec<f64>| -> f64 { v.iter().sum() };
        let (epus_an, nepus_an, cgn_an, pr_an, pr_used_an) = (sum(&epus), sum(&ci.nepus), sum(&ci.cgn), sum(&pr), sum(&pr_used));
        let (exp_nepus_an, exp_grid_an, del_grid_an, onst_an) = (sum(&exp_nepus), sum(&exp_grid), sum(&del_grid), sum(&onst));
        let exp_an = exp_nepus_an + exp_grid_an;
        let del_an = del_grid_an + onst_an + cgn_an;

        putv(&mut o, &format!("{p}.f_match"), &fm);
        putv(&mut o, &format!("{p}.used.epus_t"), &epus);
        o.insert(format!("{p}.used.epus_an"), epus_an);
        for (s, v) in &ci.epus_by_srv {
            putv(&mut o, &format!("{p}.used.epus_by_srv_t.{s}"), v);
            o.insert(format!("{p}.used.epus_by_srv_an.{s}"), sum(v));
        }
        putv(&mut o, &format!("{p}.used.nepus_t"), &ci.nepus);
        o.insert(format!("{p}.used.nepus_an"), nepus_an);
        putv(&mut o, &format!("{p}.used.cgnus_t"), &ci.cgn);
        o.insert(format!("{p}.used.cgnus_an"), cgn_an);
        putv(&mut o, &format!("{p}.prod.t"), &pr);
        o.insert(format!("{p}.prod.an"), pr_an);
        putv(&mut o, &format!("{p}.prod.epus_t"), &pr_used);
        o.insert(format!("{p}.prod.epus_an"), pr_used_an);
        let mut exp_j_an: BTreeMap<String, f64> = BTreeMap::new();
        for (s, v) in &ci.prod {
            putv(&mut o, &format!("{p}.prod.by_src_t.{s}"), v);
            o.insert(format!("{p}.prod.by_src_an.{s}"), sum(v));
            let u = &used_j[s];
            putv(&mut o, &format!("{p}.prod.epus_by_src_t.{s}"), u);
            o.insert(format!("{p}.prod.epus_by_src_an.{s}"), sum(u));
            let ej: Vec<f64> = (0..n).map(|i| v[i] - u[i]).collect();
            putv(&mut o, &format!("{p}.exp.by_src_t.{s}"), &ej);
            o.insert(format!("{p}.exp.by_src_an.{s}"), sum(&ej));
            exp_j_an.insert(s.clone(), sum(&ej));
            *t_by_src.entry(s.clone()).or_default() += sum(v);
            *t_epus_by_src.entry(s.clone()).or_default() += sum(u);
            for (srv, us) in &ci.epus_by_srv {
                let share: Vec<f64> = (0..n).map(|i| if epus[i] > 0.0 { u[i] * us[i] / epus[i] } else { 0.0 }).collect();
                putv(&mut o, &format!("{p}.prod.epus_by_srv_by_src_t.{s}.{srv}"), &share);
                o.insert(format!("{p}.prod.epus_by_srv_by_src_an.{s}.{srv}"), sum(&share));
                *t_epus_by_srv_by_src.entry((s.clone(), srv.clone())).or_default() += sum(&share);
            }
        }
        putv(&mut o, &format!("{p}.exp.t"), &exp);
        o.insert(format!("{p}.exp.an"), exp_an);
        putv(&mut o, &format!("{p}.exp.grid_t"), &exp_grid);
        o.insert(format!("{p}.exp.grid_an"), exp_grid_an);
        putv(&mut o, &format!("{p}.exp.nepus_t"), &exp_nepus);
        o.insert(format!("{p}.exp.nepus_an"), exp_nepus_an);
        o.insert(format!("{p}.del.an"), del_an);
        putv(&mut o, &format!("{p}.del.grid_t"), &del_grid);
        o.insert(format!("{p}.del.grid_an"), del_grid_an);
        putv(&mut o, &format!("{p}.del.onst_t"), &onst);
        o.insert(format!("{p}.del.onst_an"), onst_an);
        putv(&mut o, &format!("{p}.del.cgn_t"), &ci.cgn);
        o.insert(format!("{p}.del.cgn_an"), cgn_an);

        // ---- weighting: (2), (20)-(28)
        let f_grid = find(&fs, cr, "RED", "SUMINISTRO", "A")?;
        let w_del_grid = f_grid.scale(del_grid_an);
        let w_del_cgn = if cgn_an != 0.0 { f_grid.scale(cgn_an) } else { W::default() };
        let w_del_onst = if onst_an != 0.0 { find(&fs, cr, "INSITU", "SUMINISTRO", "A")?.scale(onst_an) } else { W::default() };
        let w_del = w_del_grid.add(w_del_onst).add(w_del_cgn);
        let (mut w_exp_nepus_a, mut w_exp_grid_a, mut w_exp_nepus_ab, mut w_exp_grid_ab) = (W::default(), W::default(), W::default(), W::default());
        // exported energy below f32 rounding noise of the flows it is a difference of counts as none
        let noise = 2e-6 * (pr_an.abs() + epus_an.abs()).max(1e-3);
        if exp_an.abs() > noise {
            let mean = |dest: &str, step: &str| -> Result<W, RefErr> {
                let mut r = W::default();
                for (s, e) in &exp_j_an {
                    r = r.add(find(&fs, cr, src_of(s), dest, step)?.scale(e / exp_an));
                }
                Ok(r)
            };
            let (fa_n, fb_n) = if exp_nepus_an.abs() > noise { (mean("A_NEPB", "A")?, mean("A_NEPB", "B")?) } else { (W::default(), W::default()) };
            let (fa_g, fb_g) = if exp_grid_an.abs() > noise { (mean("A_RED", "A")?, mean("A_RED", "B")?) } else { (W::default(), W::default()) };
            w_exp_nepus_a = fa_n.scale(exp_nepus_an);
            w_exp_grid_a = fa_g.scale(exp_grid_an);
            w_exp_nepus_ab = fb_n.sub(fa_n).scale(exp_nepus_an);
            w_exp_grid_ab = fb_g.sub(fa_g).scale(exp_grid_an);
        }
        let w_exp_a = w_exp_nepus_a.add(w_exp_grid_a);
        let w_exp_ab = w_exp_nepus_ab.add(w_exp_grid_ab);
        let w_exp = w_exp_a.add(w_exp_ab.scale(k_exp));
        let w_a = w_del.sub(w_exp_a);
        let w_b = w_del.sub(w_exp);
        for (name, w) in [
            ("b", w_b),
            ("a", w_a),
            ("del", w_del),
            ("del_grid", w_del_grid),
            ("del_onst", w_del_onst),
            ("del_cgn", w_del_cgn),
            ("exp", w_exp),
            ("exp_a", w_exp_a),
            ("exp_nepus_a", w_exp_nepus_a),
            ("exp_grid_a", w_exp_grid_a),
            ("exp_nepus_ab", w_exp_nepus_ab),
            ("exp_grid_ab", w_exp_grid_ab),
            ("exp_ab", w_exp_ab),
        ] {
            putw(&mut o, &format!("{p}.we.{name}"), w);
        }
        // service shares by reverse calculation (E.3.6)
        for (srv, v) in &ci.epus_by_srv {
            let f = if epus_an > 0.0 { sum(v) / epus_an } else { 0.0 };
            putw(&mut o, &format!("{p}.we.a_by_srv.{srv}"), w_a.scale(f));
            putw(&mut o, &format!("{p}.we.b_by_srv.{srv}"), w_b.scale(f));
            *t_epus_by_srv.entry(srv.clone()).or_default() += sum(v);
            let e = t_a_by_srv.entry(srv.clone()).or_default();
            *e = e.add(w_a.scale(f));
            let e = t_b_by_srv.entry(srv.clone()).or_default();
            *e = e.add(w_b.scale(f));
            o.insert(format!("balance.used.epus_by_cr_by_srv.{srv}.{cr}"), sum(v));
        }
        // ---- whole building
        t_used_epus += epus_an;
        t_used_nepus += nepus_an;
        t_used_cgn += cgn_an;
        t_prod += pr_an;
        t_del += del_an;
        t_del_onst += onst_an;
        t_del_grid += del_grid_an;
        t_exp += exp_an;
        t_exp_grid += exp_grid_an;
        t_exp_nepus += exp_nepus_an;
        t_a = t_a.add(w_a);
        t_b = t_b.add(w_b);
        t_wdel = t_wdel.add(w_del);
        t_wexp_a = t_wexp_a.add(w_exp_a);
        t_wexp = t_wexp.add(w_exp);
        if pr_an != 0.0 {
            o.insert(format!("balance.prod.by_cr.{cr}"), pr_an);
        }
        if del_grid_an != 0.0 {
            o.insert(format!("balance.del.grid_by_cr.{cr}"), del_grid_an);
        }
        if epus_an != 0.0 {
            o.insert(format!("balance.used.epus_by_cr.{cr}"), epus_an);
        }
    }
    for (k, v) in [
        ("used.epus", t_used_epus),
        ("used.nepus", t_used_nepus),
        ("used.cgnus", t_used_cgn),
        ("prod.an", t_prod),
        ("del.an", t_del),
        ("del.onst", t_del_onst),
        ("del.grid", t_del_grid),
        ("exp.an", t_exp),
        ("exp.grid", t_exp_grid),
        ("exp.nepus", t_exp_nepus),
    ] {
        o.insert(format!("balance.{k}"), v);
    }
    putw(&mut o, "balance.we.a", t_a);
    putw(&mut o, "balance.we.b", t_b);
    putw(&mut o, "balance.we.del", t_wdel);
    putw(&mut o, "balance.we.exp_a", t_wexp_a);
    putw(&mut o, "balance.we.exp", t_wexp);
    for (s, v) in &t_epus_by_srv {
        o.insert(format!("balance.used.epus_by_srv.{s}"), *v);
    }
    for (s, w) in &t_a_by_srv {
        putw(&mut o, &format!("balance.we.a_by_srv.{s}"), *w);
    }
    for (s, w) in &t_b_by_srv {
        putw(&mut o, &format!("balance.we.b_by_srv.{s}"), *w);
    }
    for (s, v) in &t_by_src {
        o.insert(format!("balance.prod.by_src.{s}"), *v);
    }
    for (s, v) in &t_epus_by_src {
        o.insert(format!("balance.prod.epus_by_src.{s}"), *v);
    }
    for ((s, srv), v) in &t_epus_by_srv_by_src {
        o.insert(format!("balance.prod.epus_by_srv_by_src.{s}.{srv}"), *v);
    }
    for (s, nd) in [("ACS", &comps.needs.ACS), ("CAL", &comps.needs.CAL), ("REF", &comps.needs.REF)] {
        if let Some(v) = nd {
            o.insert(format!("balance.needs.{s}"), v.iter().map(|x| *x as f64).sum());
        }
    }
    // per m2
    let per_m2: Vec<(String, f64)> = o.iter().filter(|(k, _)| k.starts_with("balance.")).map(|(k, v)| (format!("balance_m2.{}", &k["balance.".len()..]), v / area)).collect();
    o.extend(per_m2);
    let tot = t_b.ren + t_b.nren;
    o.insert("rer".into(), if tot == 0.0 { 0.0 } else { t_b.ren / tot });
    o.insert("k_exp".into(), k_exp);
    o.insert("arearef".into(), area);
    Ok(o)
}
