//! Reference models (DESIGN.md §3.3): written for this purpose, f64, no code shared with the subject.
pub mod decl;
pub mod balance;
