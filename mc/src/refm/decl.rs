//! Independent reader of the *declared* lines of a (valid) components file, as written by the
//! alphabets / shipped examples. Not a validator: the subject's parser decides validity.

#[derive(Clone, Debug, PartialEq)]
pub enum Kind {
    Used,
    Prod,
    Aux,
    Out,
    Need,
}

#[derive(Clone, Debug)]
pub struct Decl {
    pub kind: Kind,
    /// system id (legacy lines without id: 0); needs: 0
    pub id: i32,
    /// service (Used, Out, Need)
    pub srv: String,
    /// carrier (Used) or source (Prod)
    pub tag: String,
    pub vals: Vec<f64>,
    pub comment: String,
    pub legacy: bool,
}

impl Decl {
    /// carrier of the line (production sources map to their carrier, auxiliaries are electricity)
    pub fn carrier(&self) -> &str {
        match self.kind {
            Kind::Used => &self.tag,
            Kind::Prod => match self.tag.as_str() {
                "EL_INSITU" | "EL_COGEN" => "ELECTRICIDAD",
                other => other,
            },
            Kind::Aux => "ELECTRICIDAD",
            _ => "",
        }
    }
}

pub fn read(text: &str) -> Vec<Decl> {
    let mut out = vec![];
    let text = text.strip_prefix('\u{feff}').unwrap_or(text);
    for line in text.lines() {
        let l = line.trim();
        if l.is_empty() || l.starts_with('#') || l.starts_with("vector,") {
            continue;
        }
        let (body, comment) = match l.find('#') {
            Some(i) => (&l[..i], l[i + 1..].trim().to_string()),
            None => (l, String::new()),
        };
        let toks: Vec<&str> = body.split(',').map(|s| s.trim()).collect();
        let (id, legacy, rest) = match toks[0].parse::<i32>() {
            Ok(i) => (i, false, &toks[1..]),
            Err(_) => (0, true, &toks[..]),
        };
        if rest.is_empty() {
            continue;
        }
        let nums = |ts: &[&str]| -> Vec<f64> { ts.iter().filter_map(|t| t.parse::<f32>().ok().map(|x| x as f64)).collect() };
        let d = match rest[0] {
            "CONSUMO" if rest.len() >= 3 => Decl { kind: Kind::Used, id, srv: rest[1].into(), tag: rest[2].into(), vals: nums(&rest[3..]), comment, legacy },
            "PRODUCCION" if rest.len() >= 2 => Decl { kind: Kind::Prod, id, srv: String::new(), tag: rest[1].into(), vals: nums(&rest[2..]), comment, legacy },
            "AUX" => Decl { kind: Kind::Aux, id, srv: String::new(), tag: String::new(), vals: nums(&rest[1..]), comment, legacy },
            "SALIDA" if rest.len() >= 2 => Decl { kind: Kind::Out, id, srv: rest[1].into(), tag: String::new(), vals: nums(&rest[2..]), comment, legacy },
            "DEMANDA" if rest.len() >= 2 => Decl { kind: Kind::Need, id: 0, srv: rest[1].into(), tag: String::new(), vals: nums(&rest[2..]), comment, legacy },
            _ => continue,
        };
        out.push(d);
    }
    out
}

pub fn add_into(acc: &mut Vec<f64>, v: &[f64]) {
    if acc.len() < v.len() {
        acc.resize(v.len(), 0.0);
    }
    for (i, x) in v.iter().enumerate() {
        acc[i] += x;
    }
}
