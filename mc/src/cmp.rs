//! Comparison of result trees and text-level rewritings shared by the relation-type properties.

use std::collections::BTreeMap;

use crate::tree::{Flat, Leaf};

pub struct Diff {
    pub path: String,
    pub a: String,
    pub b: String,
}

/// Compare two flat trees. Numbers: |a-b| <= abs + rel*max(|a|,|b|); everything else: equality.
/// `map_b` transforms the expected value per path (scaling etc.); `skip` removes paths from the comparison.
pub fn cmp_flat(a: &Flat, b: &Flat, abs: f64, rel: f64, skip: &dyn Fn(&str) -> bool, map_a: &dyn Fn(&str, f64) -> f64) -> Vec<Diff> {
    cmp_flat_rt(a, b, abs, rel, 1e-4, skip, map_a)
}

/// Ratio leaves (`rer*`) of a result tree are quotients of the total primary energy: their error is the
/// energy error divided by the total. Returns None when a total is rounding noise (not comparable), else
/// the tolerance 1e-4 + 2*tol(mag)/|total|. `nolm`: the leaf belongs to the second configuration of C10.
pub fn ratio_tolerance(a: &Flat, b: &Flat, mag_a: f64, mag_b: f64, nolm: bool) -> Option<f64> {
    let pre = if nolm { "nolm." } else { "" };
    let tot = |f: &Flat| -> f64 {
        let g = |k: &str| f.get(&format!("{pre}balance.we.b.{k}")).and_then(|l| l.num()).unwrap_or(0.0);
        g("ren") + g("nren")
    };
    let (ta, tb) = (tot(a).abs(), tot(b).abs());
    if ta <= 1e-3 * mag_a || tb <= 1e-3 * mag_b {
        return None;
    }
    let e = |t: f64, m: f64| 2.0 * (2e-5 * m + 1e-6) / t;
    Some(1e-4 + e(ta, mag_a).max(e(tb, mag_b)))
}

/// `cmp_flat` with the ratio policy built in (guard + tolerance derived from the totals of both trees)
pub fn cmp_flat_m(a: &Flat, b: &Flat, abs: f64, rel: f64, mag_a: f64, mag_b: f64, skip: &dyn Fn(&str) -> bool, map_a: &dyn Fn(&str, f64) -> f64) -> Vec<Diff> {
    let rt = ratio_tolerance(a, b, mag_a, mag_b, false);
    let rt_nolm = if a.keys().any(|k| k.starts_with("nolm.")) { ratio_tolerance(a, b, mag_a, mag_b, true) } else { None };
    let skip2 = |p: &str| {
        if skip(p) {
            return true;
        }
        if p.starts_with("rer") {
            return if p.ends_with(".nolm") { rt_nolm.is_none() } else { rt.is_none() };
        }
        false
    };
    // the larger of the two tolerances is used for all ratio leaves of the pair
    let t = rt.unwrap_or(1e-4).max(rt_nolm.unwrap_or(1e-4));
    cmp_flat_rt(a, b, abs, rel, t, &skip2, map_a)
}

/// as `cmp_flat` with an explicit tolerance for the ratio leaves (`rer*`)
pub fn cmp_flat_rt(a: &Flat, b: &Flat, abs: f64, rel: f64, ratio_tol: f64, skip: &dyn Fn(&str) -> bool, map_a: &dyn Fn(&str, f64) -> f64) -> Vec<Diff> {
    let mut out = vec![];
    for (p, la) in a {
        if skip(p) {
            continue;
        }
        match b.get(p) {
            None => {
                // map entries guarded by "!= 0" in the subject: absent == (numerically) zero
                let tiny = la.num().map(|x| map_a(p, x).abs() <= abs).unwrap_or(false);
                if !tiny {
                    out.push(Diff { path: p.clone(), a: format!("{la:?}"), b: "<absent>".into() });
                }
            }
            Some(lb) => match (la.num(), lb.num()) {
                (Some(x), Some(y)) => {
                    let x = map_a(p, x);
                    let ok = if p.starts_with("rer") {
                        // ratios: 1e-4 of their size
                        (x - y).abs() <= ratio_tol * x.abs().max(y.abs()).max(1.0)
                    } else {
                        (x - y).abs() <= abs + rel * x.abs().max(y.abs())
                    } || x == y
                        || (x.is_nan() && y.is_nan());
                    if !ok {
                        out.push(Diff { path: p.clone(), a: format!("{x}"), b: format!("{y}") });
                    }
                }
                _ => {
                    if la != lb {
                        out.push(Diff { path: p.clone(), a: format!("{la:?}"), b: format!("{lb:?}") });
                    }
                }
            },
        }
    }
    for p in b.keys() {
        if skip(p) {
            continue;
        }
        if !a.contains_key(p) {
            let tiny = b[p].num().map(|x| x.abs() <= abs).unwrap_or(false);
            if !tiny {
                out.push(Diff { path: p.clone(), a: "<absent>".into(), b: format!("{:?}", b[p]) });
            }
        }
    }
    out
}

/// RER values are only meaningful when total primary energy is above rounding noise
pub fn ratios_ok(ep: &cteepbd::types::EnergyPerformance, mag: f64) -> bool {
    (ep.balance.we.b.tot() as f64).abs() > 1e-3 * mag
}

pub fn bits_equal(a: &Flat, b: &Flat, skip: &dyn Fn(&str) -> bool) -> Vec<Diff> {
    let mut out = vec![];
    for (p, la) in a {
        if skip(p) {
            continue;
        }
        match b.get(p) {
            Some(lb) => {
                let same = match (la, lb) {
                    (Leaf::Num(x), Leaf::Num(y)) => (*x as f32).to_bits() == (*y as f32).to_bits() || (x.is_nan() && y.is_nan()),
                    _ => la == lb,
                };
                if !same {
                    out.push(Diff { path: p.clone(), a: format!("{la:?}"), b: format!("{lb:?}") });
                }
            }
            None => out.push(Diff { path: p.clone(), a: format!("{la:?}"), b: "<absent>".into() }),
        }
    }
    for p in b.keys() {
        if !skip(p) && !a.contains_key(p) {
            out.push(Diff { path: p.clone(), a: "<absent>".into(), b: format!("{:?}", b[p]) });
        }
    }
    out
}

pub fn show(d: &[Diff]) -> (String, String) {
    let mut d: Vec<&Diff> = d.iter().collect();
    d.sort_by(|a, b| a.path.cmp(&b.path));
    let n = d.len().min(4);
    (
        d[..n].iter().map(|x| format!("{}={}", x.path, x.a)).collect::<Vec<_>>().join("; "),
        d[..n].iter().map(|x| format!("{}={}", x.path, x.b)).collect::<Vec<_>>().join("; "),
    )
}

/// is this path a per-step (vector element) leaf?
pub fn is_step_path(p: &str) -> bool {
    p.ends_with(']')
}

pub fn step_index(p: &str) -> Option<(String, usize)> {
    if !p.ends_with(']') {
        return None;
    }
    let i = p.rfind('[')?;
    let idx = p[i + 1..p.len() - 1].parse().ok()?;
    Some((p[..i].to_string(), idx))
}

// ---------------------------------------------------------------------------------------------------
// text-level rewriting of the numeric values of a components file

/// Split a data line into (prefix fields incl. tags, values, comment). None for meta/comment/blank lines.
pub fn split_line(line: &str) -> Option<(Vec<String>, Vec<f64>, String)> {
    let l = line.trim();
    if l.is_empty() || l.starts_with('#') || l.starts_with("vector,") {
        return None;
    }
    let (body, comment) = match l.find('#') {
        Some(i) => (&l[..i], l[i..].to_string()),
        None => (l, String::new()),
    };
    let toks: Vec<String> = body.split(',').map(|s| s.trim().to_string()).collect();
    // values: the maximal numeric suffix that starts after the last non-numeric token
    let last_tag = toks.iter().rposition(|t| t.parse::<f64>().is_err())?;
    let vals: Vec<f64> = toks[last_tag + 1..].iter().map(|t| t.parse::<f64>().unwrap()).collect();
    Some((toks[..=last_tag].to_vec(), vals, comment))
}

pub fn fmt_num(x: f64) -> String {
    // shortest representation that round-trips through f32 (what the subject parses)
    format!("{}", x as f32)
}

pub fn join_line(prefix: &[String], vals: &[f64], comment: &str) -> String {
    let mut s = prefix.join(", ");
    for v in vals {
        s.push_str(", ");
        s.push_str(&fmt_num(*v));
    }
    if !comment.is_empty() {
        s.push(' ');
        s.push_str(comment);
    }
    s
}

/// Rewrite the values of every data line.
pub fn map_values(text: &str, f: &dyn Fn(&[f64]) -> Vec<f64>) -> String {
    let mut out = String::new();
    for line in text.lines() {
        match split_line(line) {
            Some((pre, vals, com)) => out.push_str(&join_line(&pre, &f(&vals), &com)),
            None => out.push_str(line),
        }
        out.push('\n');
    }
    out
}

pub fn num_steps(text: &str) -> usize {
    text.lines().filter_map(split_line).map(|(_, v, _)| v.len()).max().unwrap_or(0)
}

/// all permutations of 0..n (n small)
pub fn permutations(n: usize) -> Vec<Vec<usize>> {
    fn rec(cur: &mut Vec<usize>, used: &mut Vec<bool>, n: usize, out: &mut Vec<Vec<usize>>) {
        if cur.len() == n {
            out.push(cur.clone());
            return;
        }
        for i in 0..n {
            if !used[i] {
                used[i] = true;
                cur.push(i);
                rec(cur, used, n, out);
                cur.pop();
                used[i] = false;
            }
        }
    }
    let mut out = vec![];
    rec(&mut vec![], &mut vec![false; n], n, &mut out);
    out
}

pub fn count_map<T: Ord + Clone>(it: impl Iterator<Item = T>) -> BTreeMap<T, usize> {
    let mut m = BTreeMap::new();
    for x in it {
        *m.entry(x).or_default() += 1;
    }
    m
}
