//! Alphabets of the construction models (DESIGN.md §2.3 / §4).

use crate::model::*;

/// all non-zero vectors of length `t` over `vals` (hundredths)
pub fn vectors(t: usize, vals: &[V]) -> Vec<Vec<V>> {
    let mut out = vec![vec![]];
    for _ in 0..t {
        let mut n = vec![];
        for v in &out {
            for x in vals {
                let mut w: Vec<V> = v.clone();
                w.push(*x);
                n.push(w);
            }
        }
        out = n;
    }
    out.into_iter().filter(|v| v.iter().any(|x| *x != 0)).collect()
}

pub fn scale(v: &[V], num: i64, den: i64) -> Vec<V> {
    v.iter().map(|x| x * num / den).collect()
}

#[derive(Clone, Copy, PartialEq, Eq)]
pub enum Rich {
    /// 10 shapes (quick)
    Base,
    /// + more carriers / services / ids (thorough)
    Wide,
}

/// FLOW alphabet: every shape of energy flow the balance distinguishes, each with every vector.
/// Integer values (exact in f32): for each pair of quantities the code compares, all of <, =, > and both
/// zero patterns occur at some step.
pub fn flow(t: usize, vals: &[V], rich: Rich) -> Vec<Letter> {
    let vs = vectors(t, vals);
    let mut al = vec![];
    for v in &vs {
        al.push(Letter::one(u(Some(0), "ILU", "ELECTRICIDAD", v)));
        al.push(Letter::one(u(Some(1), "ACS", "ELECTRICIDAD", v)));
        al.push(Letter::one(u(Some(0), "NEPB", "ELECTRICIDAD", v)));
        al.push(Letter::one(p(Some(0), "EL_INSITU", v)));
        // CHP: electricity with its fuel (composite: electricity alone is the typed error region)
        al.push(Letter::many(vec![p(Some(2), "EL_COGEN", v), u(Some(2), "COGEN", "GASNATURAL", &scale(v, 2, 1))]));
        al.push(Letter::one(u(Some(1), "CAL", "GASNATURAL", v)));
        al.push(Letter::one(u(Some(1), "ACS", "EAMBIENTE", v)));
        al.push(Letter::one(p(Some(1), "EAMBIENTE", v)));
        al.push(Letter::one(u(Some(0), "NEPB", "EAMBIENTE", v)));
        al.push(Letter::one(u(Some(3), "CAL", "BIOMASA", v)));
        if rich == Rich::Wide {
            al.push(Letter::one(u(Some(3), "CAL", "RED1", v)));
            al.push(Letter::one(u(Some(0), "ACS", "TERMOSOLAR", v)));
            al.push(Letter::one(p(Some(0), "TERMOSOLAR", v)));
            al.push(Letter::one(u(Some(2), "REF", "ELECTRICIDAD", v)));
        }
    }
    // CHP with a fuel profile that is NOT proportional to the electricity, renewable fuel, two fuels
    let first = &vs[0];
    let last = &vs[vs.len() - 1];
    let mid = &vs[vs.len() / 2];
    let rev = |v: &Vec<V>| -> Vec<V> { v.iter().rev().cloned().collect() };
    al.push(Letter::many(vec![p(Some(2), "EL_COGEN", last), u(Some(2), "COGEN", "BIOMASA", &scale(&rev(mid), 3, 1))]));
    al.push(Letter::many(vec![p(Some(2), "EL_COGEN", mid), u(Some(2), "COGEN", "GASNATURAL", &scale(&rev(mid), 4, 1))]));
    al.push(Letter::many(vec![
        p(Some(2), "EL_COGEN", last),
        u(Some(2), "COGEN", "GASNATURAL", &scale(first, 2, 1)),
        u(Some(2), "COGEN", "BIOMASA", &scale(last, 1, 1)),
    ]));
    // a second PV field in a system that sorts after the cogenerator (two generators of one source, not contiguous)
    al.push(Letter::one(p(Some(3), "EL_INSITU", last)));
    al.push(Letter::one(p(Some(3), "EL_INSITU", mid)));
    // systems with auxiliaries (the only electricity of the building unless other letters add some), outputs, demand
    al.push(Letter::many(vec![u(Some(7), "CAL", "GASNATURAL", last), a(Some(7), first)]));
    al.push(Letter::many(vec![u(Some(8), "ACS", "GASNATURAL", mid), u(Some(8), "CAL", "GASNATURAL", last), o(8, "ACS", mid), o(8, "CAL", first), a(Some(8), mid)]));
    al.push(Letter::one(d("ACS", last)));
    al.push(Letter::many(vec![d("CAL", mid), d("REF", first)]));
    // a cogeneration system with its own auxiliaries; metadata that the LIBRARY must not act upon
    al.push(Letter::many(vec![p(Some(5), "EL_COGEN", last), u(Some(5), "COGEN", "GASNATURAL", &scale(last, 2, 1)), a(Some(5), first)]));
    al.push(Letter::many(vec![Line::M { key: "CTE_KEXP", val: "1.0" }, Line::M { key: "CTE_AREAREF", val: "7.5" }, Line::M { key: "CTE_LOCALIZACION", val: "CANARIAS" }]));
    // a system with one EPB service, a non-EPB use, auxiliaries and its declared output
    al.push(Letter::many(vec![u(Some(9), "CAL", "GASNATURAL", last), u(Some(9), "NEPB", "ELECTRICIDAD", mid), o(9, "CAL", mid), a(Some(9), first)]));
    // lines that are declared but zero at every step: an idle PV field, an idle boiler, idle ambient production, an idle CHP
    let zeros: Vec<V> = vec![0; t];
    al.push(Letter::one(p(Some(6), "EL_INSITU", &zeros)));
    al.push(Letter::one(u(Some(3), "CAL", "BIOMASA", &zeros)));
    al.push(Letter::one(p(Some(1), "EAMBIENTE", &zeros)));
    al.push(Letter::many(vec![p(Some(6), "EL_COGEN", &zeros), u(Some(6), "COGEN", "GASNATURAL", &zeros)]));
    if rich == Rich::Wide {
        al.push(Letter::many(vec![p(Some(2), "EL_COGEN", first), u(Some(2), "COGEN", "RED1", &scale(last, 2, 1))]));
        al.push(Letter::one(u(Some(4), "ACS", "RED2", last)));
        al.push(Letter::one(u(Some(4), "VEN", "GASOLEO", mid)));
    }
    al
}

/// Deep (layered) FLOW: one slot per shape, each slot absent or one of `opts` vectors: all shapes interact at once.
pub fn flow_slots(t: usize, opts: &[Vec<V>], rich: Rich) -> Vec<Vec<Letter>> {
    assert!(opts.iter().all(|v| v.len() == t));
    let absent = Letter::many(vec![]);
    let mk = |f: &dyn Fn(&Vec<V>) -> Letter| -> Vec<Letter> {
        let mut s = vec![absent.clone()];
        for v in opts {
            s.push(f(v));
        }
        s
    };
    let mut slots = vec![
        mk(&|v| Letter::one(u(Some(0), "ILU", "ELECTRICIDAD", v))),
        mk(&|v| Letter::one(u(Some(1), "ACS", "ELECTRICIDAD", v))),
        mk(&|v| Letter::one(u(Some(0), "NEPB", "ELECTRICIDAD", v))),
        mk(&|v| Letter::one(p(Some(0), "EL_INSITU", v))),
        mk(&|v| Letter::many(vec![p(Some(2), "EL_COGEN", v), u(Some(2), "COGEN", "GASNATURAL", &scale(v, 2, 1))])),
        mk(&|v| Letter::one(u(Some(2), "COGEN", "BIOMASA", v))),
        mk(&|v| Letter::one(u(Some(1), "CAL", "GASNATURAL", v))),
        mk(&|v| Letter::one(u(Some(1), "ACS", "EAMBIENTE", v))),
        mk(&|v| Letter::one(p(Some(1), "EAMBIENTE", v))),
    ];
    if rich == Rich::Wide {
        slots.push(mk(&|v| Letter::one(u(Some(0), "NEPB", "EAMBIENTE", v))));
        slots.push(mk(&|v| Letter::one(u(Some(3), "CAL", "BIOMASA", v))));
        slots.push(mk(&|v| Letter::one(u(Some(0), "ACS", "TERMOSOLAR", v))));
    }
    slots
}

/// 12-step letters to grow the shipped example files
pub fn seeded_letters() -> Vec<Letter> {
    let flat = |x: i64| -> Vec<V> { vec![x * 100; 12] };
    let ramp = |a: i64, b: i64| -> Vec<V> { (0..12).map(|i| (a + (b - a) * i / 11) * 100).collect() };
    let summer: Vec<V> = [0, 0, 1, 3, 6, 9, 9, 6, 3, 1, 0, 0].iter().map(|x| x * 100).collect();
    let winter: Vec<V> = [9, 6, 3, 1, 0, 0, 0, 0, 1, 3, 6, 9].iter().map(|x| x * 100).collect();
    let mut al = vec![];
    for v in [flat(2), ramp(0, 11), summer.clone(), winter.clone()] {
        al.push(Letter::one(u(Some(0), "ILU", "ELECTRICIDAD", &v)));
        al.push(Letter::one(u(Some(0), "NEPB", "ELECTRICIDAD", &v)));
        al.push(Letter::one(p(Some(0), "EL_INSITU", &v)));
        al.push(Letter::many(vec![p(Some(7), "EL_COGEN", &v), u(Some(7), "COGEN", "GASNATURAL", &scale(&v, 2, 1))]));
        al.push(Letter::one(u(Some(7), "CAL", "GASNATURAL", &v)));
        al.push(Letter::one(u(Some(7), "ACS", "EAMBIENTE", &v)));
        al.push(Letter::one(p(Some(7), "EAMBIENTE", &v)));
        al.push(Letter::one(u(Some(8), "CAL", "BIOMASA", &v)));
        al.push(Letter::one(u(Some(0), "NEPB", "EAMBIENTE", &v)));
    }
    al
}

/// bases: the empty file + (optionally) the shipped example files that parse
pub fn bases(with_shipped: bool) -> Vec<(String, String)> {
    let mut b = vec![("empty".to_string(), String::new())];
    if with_shipped {
        for (n, t) in crate::subj::shipped_components() {
            if crate::subj::parse(&t).is_ok() {
                b.push((n, t));
            }
        }
    }
    b
}

pub fn shipped_bases() -> Vec<(String, String)> {
    let b: Vec<_> = bases(true).into_iter().skip(1).collect();
    b
}

/// VOCAB: every (service, carrier) pair and every production source as one line, to be added to a small
/// fixed building, so that each word of the input vocabulary goes through every check at least once.
pub fn vocab_letters() -> Vec<Letter> {
    let mut al = vec![];
    for srv in ["ACS", "CAL", "REF", "VEN", "ILU", "NEPB"] {
        for car in ["ELECTRICIDAD", "GASNATURAL", "GASOLEO", "GLP", "CARBON", "BIOCARBURANTE", "BIOMASA", "BIOMASADENSIFICADA", "RED1", "RED2", "EAMBIENTE", "TERMOSOLAR"] {
            al.push(Letter::one(u(Some(4), srv, car, &k(&[2, 1]))));
        }
    }
    // (on-site heat as the input of a cogenerator is unusual but declarable: a solar or geothermal ORC unit)
    // (... and electricity itself is declarable as the input of a cogenerator, however odd)
    for car in ["GASNATURAL", "GASOLEO", "GLP", "CARBON", "BIOCARBURANTE", "BIOMASA", "BIOMASADENSIFICADA", "RED1", "RED2", "TERMOSOLAR", "EAMBIENTE", "ELECTRICIDAD"] {
        al.push(Letter::many(vec![p(Some(5), "EL_COGEN", &k(&[1, 2])), u(Some(5), "COGEN", car, &k(&[3, 3]))]));
    }
    for src in ["EL_INSITU", "TERMOSOLAR", "EAMBIENTE"] {
        al.push(Letter::one(p(Some(6), src, &k(&[1, 4]))));
    }
    al
}

pub fn vocab_base() -> Vec<(String, String)> {
    vec![("small building".to_string(), "0, CONSUMO, ILU, ELECTRICIDAD, 3, 1\n0, PRODUCCION, EL_INSITU, 1, 3\n1, CONSUMO, CAL, GASNATURAL, 2, 2\n".to_string()), ("empty".to_string(), String::new())]
}

/// TINY: values around the absolute thresholds that appear in the code (1e-3 kWh, 0.01 kWh, f32::EPSILON),
/// written as raw text (below the hundredth-of-kWh resolution of `V`).
pub fn tiny_letters() -> Vec<Letter> {
    let r = |s: &str| Letter::one(Line::Raw(s.to_string()));
    let m = |v: &[&str]| Letter::many(v.iter().map(|s| Line::Raw(s.to_string())).collect());
    vec![
        r("0, CONSUMO, ILU, ELECTRICIDAD, 0.0008, 0.5"),
        r("0, CONSUMO, ILU, ELECTRICIDAD, 0.002, 0.0004"),
        r("1, CONSUMO, ACS, ELECTRICIDAD, 0.0005, 0.25"),
        r("0, CONSUMO, NEPB, ELECTRICIDAD, 0.0004, 0.001"),
        r("0, PRODUCCION, EL_INSITU, 0.0004, 0.5015"),
        r("0, PRODUCCION, EL_INSITU, 0.002, 0.25"),
        r("0, PRODUCCION, EL_INSITU, 0.0009, 0.0009"),
        m(&["2, PRODUCCION, EL_COGEN, 0.0004, 0.0012", "2, CONSUMO, COGEN, GASNATURAL, 0.001, 0.003"]),
        m(&["2, PRODUCCION, EL_COGEN, 0.5, 0.0005", "2, CONSUMO, COGEN, BIOMASA, 1.25, 0.002"]),
        r("1, CONSUMO, ACS, EAMBIENTE, 0.0008, 0.5"),
        r("1, PRODUCCION, EAMBIENTE, 0.0015, 0.4995"),
        r("1, CONSUMO, CAL, GASNATURAL, 0.0007, 1"),
    ]
}

/// LONG: complete buildings with 13, 24, 31, 52, 365 and 8760 (hourly) steps, every step regime occurring many times
pub fn long_bases() -> Vec<(String, String)> {
    let mut out = vec![];
    // 13 and 31 are prime, 52 weeks and 365 days are not multiples of 12 or 24, 24 and 8760 are
    for t in [13usize, 24, 31, 52, 365, 8760] {
        let series = |f: &dyn Fn(usize) -> f64| -> String { (0..t).map(|i| format!("{}", (f(i) * 100.0).round() / 100.0)).collect::<Vec<_>>().join(", ") };
        let used = series(&|i| [4.0, 1.0, 0.0, 2.5, 8.0, 0.5, 3.0][i % 7]);
        let nepb = series(&|i| [0.0, 2.0, 1.0][i % 3]);
        let pv = series(&|i| [0.0, 0.0, 3.0, 6.0, 1.0][i % 5]);
        let chp = series(&|i| [2.0, 0.0, 1.0, 2.0][i % 4]);
        let fuel = series(&|i| [5.0, 0.0, 2.5, 6.0][i % 4]);
        let amb = series(&|i| [1.0, 3.0][i % 2]);
        let ambp = series(&|i| [2.0, 1.0, 0.0][i % 3]);
        let l_use = format!("0, CONSUMO, ILU, ELECTRICIDAD, {used}\n");
        let l_acs = format!("1, CONSUMO, ACS, ELECTRICIDAD, {nepb}\n");
        let l_nepb = format!("0, CONSUMO, NEPB, ELECTRICIDAD, {nepb}\n");
        let l_pv = format!("0, PRODUCCION, EL_INSITU, {pv}\n");
        let l_chp = format!("2, PRODUCCION, EL_COGEN, {chp}\n2, CONSUMO, COGEN, GASNATURAL, {fuel}\n");
        let l_amb = format!("1, CONSUMO, ACS, EAMBIENTE, {amb}\n1, PRODUCCION, EAMBIENTE, {ambp}\n");
        out.push((format!("T={t} use+PV+CHP"), format!("{l_use}{l_acs}{l_pv}{l_chp}")));
        out.push((format!("T={t} use+nEPB+PV+CHP+ambient"), format!("{l_use}{l_nepb}{l_pv}{l_chp}{l_amb}")));
        if t < 100 {
            out.push((format!("T={t} use+PV"), format!("{l_use}{l_pv}")));
            out.push((format!("T={t} CHP only"), format!("{l_use}{l_chp}")));
        }
    }
    out
}

/// hundredths from kWh written with up to two decimals
fn h(v: &[f64]) -> Vec<V> {
    v.iter().map(|x| (x * 100.0).round() as V).collect()
}

/// COMBO: a layered model of *complete, realistic 12-step buildings*: every slot is one subsystem (absent / present),
/// so that up to `n` subsystems (20+ lines, 10 systems, 8 carriers, 3 production sources, 2 cogeneration fuels)
/// interact at once. The series are designed, not arbitrary: relative to the lighting use alone the first PV field runs
/// through the production/use ratios 0, 0.009, 0.5, 0.97, 1, 1.03, 2 and 25 over the year; at step 9 the sum of three
/// electricity uses ties exactly with the PV production; the second PV field produces in December only; the CHP runs in
/// winter only with a fuel profile that is not proportional to its electricity; values carry up to five significant
/// digits. `n` <= 16 slots (2^n states).
pub fn combo_slots(n: usize) -> Vec<Vec<Letter>> {
    let absent = Letter::many(vec![]);
    let ilu = h(&[120.5, 110.25, 100.0, 100.0, 100.0, 100.0, 100.0, 100.0, 100.0, 100.0, 110.25, 120.5]);
    let pv1 = h(&[0.0, 1.0, 50.0, 97.0, 100.0, 103.0, 200.0, 2500.0, 182.0, 50.0, 1.5, 0.0]);
    let hp_el = h(&[40.0, 38.0, 36.0, 30.0, 25.0, 20.0, 18.0, 18.0, 22.0, 30.0, 36.0, 40.0]);
    let hp_amb = h(&[100.0, 95.0, 90.0, 75.0, 62.5, 50.0, 45.0, 45.0, 55.0, 75.0, 90.0, 100.0]);
    let nepb_el = h(&[30.0, 30.0, 30.0, 31.7, 30.0, 30.0, 0.0, 0.0, 30.0, 30.0, 30.0, 30.0]);
    let pv2 = h(&[0.0, 0.0, 0.0, 0.0, 0.0, 0.0, 0.0, 0.0, 0.0, 0.0, 0.0, 77.77]);
    let chp_el = h(&[60.0, 50.0, 30.0, 0.0, 0.0, 0.0, 0.0, 0.0, 0.0, 20.0, 45.0, 60.0]);
    let chp_gas = h(&[150.0, 125.0, 75.0, 0.0, 0.0, 0.0, 0.0, 0.0, 0.0, 50.0, 140.0, 150.0]);
    let chp_bio = h(&[30.0, 25.0, 15.0, 0.0, 0.0, 0.0, 0.0, 0.0, 0.0, 10.0, 22.5, 30.0]);
    let cal_gas = h(&[500.0, 420.0, 300.0, 120.0, 0.0, 0.0, 0.0, 0.0, 0.0, 150.0, 380.0, 480.0]);
    let acs_gas = h(&[60.0; 12]);
    let out_cal = h(&[450.0, 378.0, 270.0, 108.0, 0.0, 0.0, 0.0, 0.0, 0.0, 135.0, 342.0, 432.0]);
    let out_acs = h(&[54.0; 12]);
    let aux3 = h(&[12.0, 11.0, 9.0, 5.0, 3.0, 3.0, 3.0, 3.0, 3.0, 6.0, 10.0, 12.0]);
    let ref_el = h(&[0.0, 0.0, 0.0, 0.0, 20.0, 80.0, 150.0, 140.0, 60.0, 0.0, 0.0, 0.0]);
    let ref_out = h(&[0.0, 0.0, 0.0, 0.0, -60.0, -240.0, -450.0, -420.0, -180.0, 0.0, 0.0, 0.0]);
    let ref_aux = h(&[0.0, 0.0, 0.0, 0.0, 1.0, 4.0, 7.0, 7.0, 3.0, 0.0, 0.0, 0.0]);
    let cal_bio = h(&[200.0, 160.0, 100.0, 30.0, 0.0, 0.0, 0.0, 0.0, 0.0, 40.0, 120.0, 180.0]);
    let sol_use = h(&[10.0, 14.0, 20.0, 26.0, 30.0, 34.0, 36.0, 34.0, 28.0, 20.0, 12.0, 9.0]);
    let sol_prod = h(&[5.0, 7.0, 20.0, 30.0, 40.0, 34.0, 36.0, 34.0, 28.0, 10.0, 6.0, 4.0]);
    let red1 = h(&[80.0, 70.0, 50.0, 20.0, 0.0, 0.0, 0.0, 0.0, 0.0, 25.0, 60.0, 75.0]);
    let nepb_amb = h(&[5.0; 12]);
    let amb_surplus = h(&[8.0; 12]);
    let ven = h(&[15.15; 12]);
    let dem = h(&[150.0, 150.0, 150.0, 140.0, 130.0, 120.0, 110.0, 110.0, 120.0, 140.0, 150.0, 150.0]);
    let all: Vec<Letter> = vec![
        Letter::one(u(Some(0), "ILU", "ELECTRICIDAD", &ilu)),
        Letter::one(p(Some(10), "EL_INSITU", &pv1)),
        Letter::many(vec![p(Some(5), "EL_COGEN", &chp_el), u(Some(5), "COGEN", "GASNATURAL", &chp_gas)]),
        Letter::one(u(Some(0), "NEPB", "ELECTRICIDAD", &nepb_el)),
        Letter::many(vec![u(Some(2), "ACS", "ELECTRICIDAD", &hp_el), u(Some(2), "ACS", "EAMBIENTE", &hp_amb)]),
        // a boiler on a carrier of its own in the system with the highest id (after every production source in id order)
        Letter::one(u(Some(31), "CAL", "RED1", &red1)),
        Letter::one(p(Some(11), "EL_INSITU", &pv2)),
        Letter::many(vec![u(Some(7), "ACS", "TERMOSOLAR", &sol_use), p(Some(7), "TERMOSOLAR", &sol_prod)]),
        Letter::many(vec![u(Some(4), "REF", "ELECTRICIDAD", &ref_el), o(4, "REF", &ref_out), a(Some(4), &ref_aux)]),
        Letter::one(u(Some(5), "COGEN", "BIOMASA", &chp_bio)),
        Letter::one(u(Some(3), "CAL", "GASNATURAL", &cal_gas)),
        Letter::many(vec![u(Some(3), "ACS", "GASNATURAL", &acs_gas), o(3, "CAL", &out_cal), o(3, "ACS", &out_acs), a(Some(3), &aux3)]),
        Letter::many(vec![u(Some(0), "NEPB", "EAMBIENTE", &nepb_amb), p(Some(9), "EAMBIENTE", &amb_surplus)]),
        Letter::one(u(Some(32), "CAL", "BIOMASA", &cal_bio)),
        Letter::one(u(Some(1), "VEN", "ELECTRICIDAD", &ven)),
        Letter::one(d("ACS", &dem)),
    ];
    all.into_iter().take(n).map(|l| vec![absent.clone(), l]).collect()
}

/// MAG12: monthly lines that move 1e6 kWh for eleven months and hundredths of a kWh in the last one (or the reverse), so that
/// what happens in the small month disappears in every annual f32 sum while each per-step identity still has to hold
pub fn mag12_letters() -> Vec<Letter> {
    let big = |x: V, last: V| -> Vec<V> { let mut v = vec![x; 11]; v.push(last); v };
    let m = 100_000_000; // 1e6 kWh in hundredths
    vec![
        Letter::one(u(Some(0), "ILU", "ELECTRICIDAD", &big(m, 5))),
        Letter::one(u(Some(0), "ILU", "ELECTRICIDAD", &big(m, 100))),
        Letter::one(p(Some(0), "EL_INSITU", &big(m, 30))),
        Letter::one(p(Some(0), "EL_INSITU", &big(m, 300))),
        Letter::one(p(Some(0), "EL_INSITU", &big(0, 30))),
        Letter::one(u(Some(0), "NEPB", "ELECTRICIDAD", &big(0, 10))),
        Letter::one(u(Some(0), "NEPB", "ELECTRICIDAD", &big(m / 2, 10))),
        Letter::many(vec![p(Some(2), "EL_COGEN", &big(m / 2, 20)), u(Some(2), "COGEN", "GASNATURAL", &big(m, 50))]),
        Letter::one(u(Some(1), "ACS", "EAMBIENTE", &big(m, 5))),
        Letter::one(p(Some(1), "EAMBIENTE", &big(m, 30))),
        Letter::one(u(Some(1), "CAL", "GASNATURAL", &big(5, m))),
    ]
}

/// an extra slot for the deep FLOW model: a second PV field in a system that sorts after the cogenerator
pub fn second_pv_slot(opts: &[Vec<V>]) -> Vec<Letter> {
    let mut s = vec![Letter::many(vec![])];
    for v in opts {
        s.push(Letter::one(p(Some(3), "EL_INSITU", v)));
    }
    s
}

/// RATIO: one lighting use of 10 kWh under PV on a geometric grid from 0.01 to 10 000 kWh, beside a cogenerator of three
/// sizes on gas or biomass and a non-EPB use of three sizes: production/use ratios and shares of one source in the exported
/// energy from 1e-3 to 1e3 (T = 2: the second step runs through the grid in the opposite direction)
pub fn ratio_slots() -> Vec<Vec<Letter>> {
    let grid: [V; 10] = [0, 1, 10, 100, 300, 1000, 3000, 10000, 100000, 1000000];
    let mut pv = vec![];
    for (i, g) in grid.iter().enumerate() {
        let v = vec![*g, grid[grid.len() - 1 - i]];
        pv.push(if v.iter().all(|x| *x == 0) { Letter::many(vec![]) } else { Letter::one(p(Some(0), "EL_INSITU", &v)) });
    }
    let mut chp = vec![Letter::many(vec![])];
    for fuel in ["GASNATURAL", "BIOMASA"] {
        for e in [50, 500, 5000] {
            chp.push(Letter::many(vec![p(Some(2), "EL_COGEN", &[e, e]), u(Some(2), "COGEN", fuel, &[3 * e, 3 * e])]));
        }
    }
    let nepb = vec![Letter::many(vec![]), Letter::one(u(Some(0), "NEPB", "ELECTRICIDAD", &k(&[5, 5]))), Letter::one(u(Some(0), "NEPB", "ELECTRICIDAD", &k(&[500, 500])))];
    vec![vec![Letter::one(u(Some(0), "ILU", "ELECTRICIDAD", &k(&[10, 10])))], pv, chp, nepb]
}
