//! E1 construction models (DESIGN.md §2.3): structured lines, alphabets, canonical rendering and the
//! stateright adapter that runs the real pipeline in the property function of every state.

use std::sync::Arc;

use stateright::{Checker, Model, Property};

use crate::core::{Ctx, Out, Shared, StateCheck};

/// energy values in hundredths of kWh (exact, hashable)
pub type V = i64;

#[derive(Clone, Debug, PartialEq, Eq, Hash, PartialOrd, Ord)]
pub enum Line {
    /// CONSUMO: id (None = legacy line without id), service, carrier
    U { id: Option<i32>, srv: &'static str, car: &'static str, v: Vec<V>, com: &'static str },
    /// PRODUCCION
    P { id: Option<i32>, src: &'static str, v: Vec<V>, com: &'static str },
    /// AUX
    A { id: Option<i32>, v: Vec<V>, com: &'static str },
    /// SALIDA (id mandatory)
    O { id: i32, srv: &'static str, v: Vec<V>, com: &'static str },
    /// DEMANDA
    D { srv: &'static str, v: Vec<V> },
    /// #META key: value
    M { key: &'static str, val: &'static str },
    /// verbatim text
    Raw(String),
}

pub fn fmt_v(v: V) -> String {
    let neg = v < 0;
    let a = v.unsigned_abs();
    let (i, f) = (a / 100, a % 100);
    let s = if f == 0 {
        format!("{i}")
    } else if f % 10 == 0 {
        format!("{i}.{}", f / 10)
    } else {
        format!("{i}.{f:02}")
    };
    if neg {
        format!("-{s}")
    } else {
        s
    }
}

pub fn fmt_vs(v: &[V]) -> String {
    v.iter().map(|x| fmt_v(*x)).collect::<Vec<_>>().join(", ")
}

fn idp(id: &Option<i32>) -> String {
    match id {
        Some(i) => format!("{i}, "),
        None => String::new(),
    }
}
fn comp(c: &str) -> String {
    if c.is_empty() {
        String::new()
    } else {
        format!(" # {c}")
    }
}

impl Line {
    pub fn render(&self) -> String {
        match self {
            Line::U { id, srv, car, v, com } => format!("{}CONSUMO, {srv}, {car}, {}{}", idp(id), fmt_vs(v), comp(com)),
            Line::P { id, src, v, com } => format!("{}PRODUCCION, {src}, {}{}", idp(id), fmt_vs(v), comp(com)),
            Line::A { id, v, com } => format!("{}AUX, {}{}", idp(id), fmt_vs(v), comp(com)),
            Line::O { id, srv, v, com } => format!("{id}, SALIDA, {srv}, {}{}", fmt_vs(v), comp(com)),
            Line::D { srv, v } => format!("DEMANDA, {srv}, {}", fmt_vs(v)),
            Line::M { key, val } => format!("#META {key}: {val}"),
            Line::Raw(s) => s.clone(),
        }
    }
    pub fn values(&self) -> Option<&Vec<V>> {
        match self {
            Line::U { v, .. } | Line::P { v, .. } | Line::A { v, .. } | Line::O { v, .. } | Line::D { v, .. } => Some(v),
            _ => None,
        }
    }
    pub fn with_values(&self, nv: Vec<V>) -> Line {
        let mut l = self.clone();
        match &mut l {
            Line::U { v, .. } | Line::P { v, .. } | Line::A { v, .. } | Line::O { v, .. } | Line::D { v, .. } => *v = nv,
            _ => {}
        }
        l
    }
    pub fn is_pv(&self) -> bool {
        matches!(self, Line::P { src: "EL_INSITU", .. })
    }
}

pub fn u(id: Option<i32>, srv: &'static str, car: &'static str, v: &[V]) -> Line {
    Line::U { id, srv, car, v: v.to_vec(), com: "" }
}
pub fn p(id: Option<i32>, src: &'static str, v: &[V]) -> Line {
    Line::P { id, src, v: v.to_vec(), com: "" }
}
pub fn a(id: Option<i32>, v: &[V]) -> Line {
    Line::A { id, v: v.to_vec(), com: "" }
}
pub fn o(id: i32, srv: &'static str, v: &[V]) -> Line {
    Line::O { id, srv, v: v.to_vec(), com: "" }
}
pub fn d(srv: &'static str, v: &[V]) -> Line {
    Line::D { srv, v: v.to_vec() }
}

/// whole kWh -> hundredths
pub fn k(vals: &[i64]) -> Vec<V> {
    vals.iter().map(|x| x * 100).collect()
}

/// One letter of an alphabet: one or more lines that are added together (composite transition).
#[derive(Clone, Debug)]
pub struct Letter {
    pub lines: Vec<Line>,
}
impl Letter {
    pub fn one(l: Line) -> Self {
        Letter { lines: vec![l] }
    }
    pub fn many(ls: Vec<Line>) -> Self {
        Letter { lines: ls }
    }
}

pub fn render_lines(lines: &[Line]) -> String {
    let mut s = String::new();
    for l in lines {
        s.push_str(&l.render());
        s.push('\n');
    }
    s
}

// ---------------------------------------------------------------------------------------------------
// Spaces

/// A finite construction space: states, transitions, and the text (file) a state stands for.
pub trait Space: Send + Sync + 'static {
    type S: Clone + std::fmt::Debug + std::hash::Hash + PartialEq + Eq + Send + Sync + 'static;
    fn init(&self) -> Vec<Self::S>;
    fn actions(&self, s: &Self::S, out: &mut Vec<u32>);
    fn next(&self, s: &Self::S, a: u32) -> Option<Self::S>;
    /// the lines of the state, `None` if this state is only an intermediate construction step
    fn lines(&self, s: &Self::S) -> Option<(String, Vec<Line>)>;
    fn depth(&self, s: &Self::S) -> usize;
}

/// Wide model: multisets (or sets) of letters up to a depth, grown from a set of base files.
pub struct Wide {
    pub alphabet: Vec<Letter>,
    /// (name, text) of the initial states; text is prepended verbatim
    pub bases: Vec<(String, String)>,
    pub max_add: usize,
    pub repeat: bool,
}

#[derive(Clone, Debug, Hash, PartialEq, Eq)]
pub struct WS {
    pub base: u16,
    pub picks: Vec<u16>,
}

impl Space for Wide {
    type S = WS;
    fn init(&self) -> Vec<WS> {
        (0..self.bases.len().max(1)).map(|b| WS { base: b as u16, picks: vec![] }).collect()
    }
    fn actions(&self, s: &WS, out: &mut Vec<u32>) {
        if s.picks.len() >= self.max_add {
            return;
        }
        // monotone construction: a multiset is reached by exactly one path (its sorted order);
        // the executed file is the canonical rendering in any case.
        let start = match s.picks.last() {
            Some(&l) => {
                if self.repeat {
                    l as u32
                } else {
                    l as u32 + 1
                }
            }
            None => 0,
        };
        for a in start..self.alphabet.len() as u32 {
            out.push(a);
        }
    }
    fn next(&self, s: &WS, a: u32) -> Option<WS> {
        let mut n = s.clone();
        n.picks.push(a as u16);
        Some(n)
    }
    fn lines(&self, s: &WS) -> Option<(String, Vec<Line>)> {
        let base = self.bases.get(s.base as usize).map(|b| b.1.clone()).unwrap_or_default();
        let mut ls = Vec::new();
        for &pk in &s.picks {
            ls.extend(self.alphabet[pk as usize].lines.iter().cloned());
        }
        Some((base, ls))
    }
    fn depth(&self, s: &WS) -> usize {
        s.picks.len()
    }
}

/// Deep (layered) model: slot i takes one of its options (option 0 is conventionally "absent");
/// only complete assignments are evaluated.
pub struct Layered {
    pub slots: Vec<Vec<Letter>>,
    pub bases: Vec<(String, String)>,
}

#[derive(Clone, Debug, Hash, PartialEq, Eq)]
pub struct LS {
    pub base: u16,
    pub choice: Vec<u8>,
}

impl Space for Layered {
    type S = LS;
    fn init(&self) -> Vec<LS> {
        (0..self.bases.len().max(1)).map(|b| LS { base: b as u16, choice: vec![] }).collect()
    }
    fn actions(&self, s: &LS, out: &mut Vec<u32>) {
        if s.choice.len() < self.slots.len() {
            for a in 0..self.slots[s.choice.len()].len() as u32 {
                out.push(a);
            }
        }
    }
    fn next(&self, s: &LS, a: u32) -> Option<LS> {
        let mut n = s.clone();
        n.choice.push(a as u8);
        Some(n)
    }
    fn lines(&self, s: &LS) -> Option<(String, Vec<Line>)> {
        if s.choice.len() != self.slots.len() {
            return None;
        }
        let base = self.bases.get(s.base as usize).map(|b| b.1.clone()).unwrap_or_default();
        let mut ls = Vec::new();
        for (i, &c) in s.choice.iter().enumerate() {
            ls.extend(self.slots[i][c as usize].lines.iter().cloned());
        }
        Some((base, ls))
    }
    fn depth(&self, s: &LS) -> usize {
        s.choice.len()
    }
}

// ---------------------------------------------------------------------------------------------------
// stateright adapter

type Job = (String, Vec<Line>, usize);

/// stateright enumerates and deduplicates the states; the (expensive) execution of the real code on each
/// state is handed to a pool of evaluation workers through a bounded queue, because stateright only
/// re-balances work between its threads every 1500 states.
pub struct Mc<Sp: Space, C: StateCheck> {
    pub space: Sp,
    pub shared: Arc<Shared>,
    tx: std::sync::mpsc::SyncSender<Job>,
    _c: std::marker::PhantomData<fn() -> C>,
}

impl<Sp: Space, C: StateCheck> Model for Mc<Sp, C> {
    type State = Sp::S;
    type Action = u32;
    fn init_states(&self) -> Vec<Self::State> {
        self.space.init()
    }
    fn actions(&self, state: &Self::State, actions: &mut Vec<Self::Action>) {
        self.space.actions(state, actions)
    }
    fn next_state(&self, last: &Self::State, action: Self::Action) -> Option<Self::State> {
        self.space.next(last, action)
    }
    fn properties(&self) -> Vec<Property<Self>> {
        vec![Property::<Self>::always("oracle holds on the real code", |m: &Mc<Sp, C>, s: &Sp::S| {
            m.eval(s);
            true
        })]
    }
}

impl<Sp: Space, C: StateCheck> Mc<Sp, C> {
    fn eval(&self, s: &Sp::S) {
        if self.shared.stop.load(std::sync::atomic::Ordering::Relaxed) {
            return;
        }
        let Some((base, lines)) = self.space.lines(s) else {
            return;
        };
        let depth = self.space.depth(s);
        let _ = self.tx.send((base, lines, depth));
    }
}

/// Explore a space exhaustively (stateright BFS enumerates; all cores evaluate).
pub fn explore<Sp: Space, C: StateCheck + Clone>(ctx: &Ctx, name: &str, space: Sp, check: C, shared: Arc<Shared>) {
    let t0 = std::time::Instant::now();
    let (tx, rx) = std::sync::mpsc::sync_channel::<Job>(4096);
    let rx = Arc::new(std::sync::Mutex::new(rx));
    let mut workers = vec![];
    for w in 0..ctx.threads {
        let rx = rx.clone();
        let check = check.clone();
        let shared = shared.clone();
        workers.push(
            std::thread::Builder::new()
                .name(format!("eval-{w}"))
                .stack_size(16 << 20)
                .spawn(move || loop {
                    let job = { rx.lock().unwrap().recv() };
                    match job {
                        Ok((base, lines, depth)) => {
                            if shared.stop.load(std::sync::atomic::Ordering::Relaxed) {
                                continue;
                            }
                            let mut out = Out::default();
                            crate::core::run_state(&check, &base, &lines, depth, &shared, &mut out);
                        }
                        Err(_) => break,
                    }
                })
                .expect("spawn evaluation worker"),
        );
    }
    let budget = ctx.model_budget();
    let m: Mc<Sp, C> = Mc { space, shared: shared.clone(), tx, _c: std::marker::PhantomData };
    let checker = m.checker().threads(2).timeout(budget).spawn_bfs().join();
    let enumerated = checker.is_done() && t0.elapsed() < budget;
    let (unique, generated, depth) = (checker.unique_state_count() as u64, checker.state_count() as u64, checker.max_depth() as u64);
    if !enumerated {
        // cap fired: do not evaluate what is still queued
        shared.stop.store(true, std::sync::atomic::Ordering::Relaxed);
    }
    // the model (and with it the sender) is owned by the checker
    drop(checker);
    for w in workers {
        let _ = w.join();
    }
    let done = enumerated && !shared.stop.load(std::sync::atomic::Ordering::Relaxed);
    shared.stop.store(false, std::sync::atomic::Ordering::Relaxed);
    shared.add_model_run(name, unique, generated, depth, done, t0.elapsed().as_secs_f64());
}
