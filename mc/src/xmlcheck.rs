//! Strict XML 1.0 well-formedness checker for the subset the subject can emit (no DTD, no attributes
//! expected but tolerated, comments, entity and character references), returning a simple element tree.

#[derive(Debug, Clone)]
pub struct El {
    pub name: String,
    pub text: String,
    pub children: Vec<El>,
}

impl El {
    pub fn find_all<'a>(&'a self, name: &str, out: &mut Vec<&'a El>) {
        if self.name == name {
            out.push(self);
        }
        for c in &self.children {
            c.find_all(name, out);
        }
    }
    pub fn child(&self, name: &str) -> Option<&El> {
        self.children.iter().find(|c| c.name == name)
    }
}

fn is_name_start(c: char) -> bool {
    c.is_alphabetic() || c == '_' || c == ':'
}
fn is_name_char(c: char) -> bool {
    is_name_start(c) || c.is_ascii_digit() || c == '-' || c == '.'
}
fn is_xml_char(c: char) -> bool {
    matches!(c, '\u{9}' | '\u{A}' | '\u{D}' | '\u{20}'..='\u{D7FF}' | '\u{E000}'..='\u{FFFD}' | '\u{10000}'..='\u{10FFFF}')
}

struct X<'a> {
    s: &'a str,
    i: usize,
}

impl<'a> X<'a> {
    fn rest(&self) -> &'a str {
        &self.s[self.i..]
    }
    fn err<T>(&self, m: &str) -> Result<T, String> {
        let st = self.s[..self.i].char_indices().rev().nth(30).map(|(i, _)| i).unwrap_or(0);
        let en = self.s[self.i..].char_indices().nth(30).map(|(i, _)| self.i + i).unwrap_or(self.s.len());
        Err(format!("{m} at byte {} near `{}`", self.i, &self.s[st..en].replace('\n', " ")))
    }
    fn name(&mut self) -> Result<String, String> {
        let r = self.rest();
        let mut it = r.char_indices();
        match it.next() {
            Some((_, c)) if is_name_start(c) => {}
            _ => return self.err("expected a name"),
        }
        let mut end = r.len();
        for (i, c) in it {
            if !is_name_char(c) {
                end = i;
                break;
            }
        }
        self.i += end;
        Ok(r[..end].to_string())
    }
    fn ws(&mut self) {
        while let Some(c) = self.rest().chars().next() {
            if c == ' ' || c == '\t' || c == '\n' || c == '\r' {
                self.i += c.len_utf8();
            } else {
                break;
            }
        }
    }
    fn reference(&mut self) -> Result<char, String> {
        // at '&'
        let r = self.rest();
        let Some(semi) = r.find(';') else { return self.err("unterminated reference") };
        let body = &r[1..semi];
        let c = match body {
            "amp" => '&',
            "lt" => '<',
            "gt" => '>',
            "apos" => '\'',
            "quot" => '"',
            _ if body.starts_with("#x") => match u32::from_str_radix(&body[2..], 16).ok().and_then(char::from_u32) {
                Some(c) if is_xml_char(c) => c,
                _ => return self.err("bad character reference"),
            },
            _ if body.starts_with('#') => match body[1..].parse::<u32>().ok().and_then(char::from_u32) {
                Some(c) if is_xml_char(c) => c,
                _ => return self.err("bad character reference"),
            },
            _ => return self.err("undefined entity"),
        };
        self.i += semi + 1;
        Ok(c)
    }
    fn comment(&mut self) -> Result<(), String> {
        // at "<!--"
        self.i += 4;
        let r = self.rest();
        let Some(end) = r.find("--") else { return self.err("unterminated comment") };
        if !r[end..].starts_with("-->") {
            return self.err("'--' inside a comment");
        }
        if let Some(c) = r[..end].chars().find(|c| !is_xml_char(*c)) {
            return self.err(&format!("illegal character {c:?} in comment"));
        }
        self.i += end + 3;
        Ok(())
    }
    fn element(&mut self) -> Result<El, String> {
        // at '<' of a start tag
        self.i += 1;
        let name = self.name()?;
        // attributes
        loop {
            self.ws();
            let r = self.rest();
            if r.starts_with("/>") {
                self.i += 2;
                return Ok(El { name, text: String::new(), children: vec![] });
            }
            if r.starts_with('>') {
                self.i += 1;
                break;
            }
            let _an = self.name()?;
            self.ws();
            if !self.rest().starts_with('=') {
                return self.err("expected = in attribute");
            }
            self.i += 1;
            self.ws();
            let q = match self.rest().chars().next() {
                Some(c @ ('"' | '\'')) => c,
                _ => return self.err("expected quoted attribute value"),
            };
            self.i += 1;
            loop {
                match self.rest().chars().next() {
                    None => return self.err("unterminated attribute"),
                    Some(c) if c == q => {
                        self.i += 1;
                        break;
                    }
                    Some('<') => return self.err("'<' in attribute value"),
                    Some('&') => {
                        self.reference()?;
                    }
                    Some(c) => self.i += c.len_utf8(),
                }
            }
        }
        let mut el = El { name, text: String::new(), children: vec![] };
        loop {
            let r = self.rest();
            if r.is_empty() {
                return self.err(&format!("element <{}> is never closed", el.name));
            }
            if r.starts_with("</") {
                self.i += 2;
                let n = self.name()?;
                self.ws();
                if !self.rest().starts_with('>') {
                    return self.err("expected > of end tag");
                }
                self.i += 1;
                if n != el.name {
                    return self.err(&format!("end tag </{n}> does not match <{}>", el.name));
                }
                return Ok(el);
            }
            if r.starts_with("<!--") {
                self.comment()?;
                continue;
            }
            if r.starts_with("<![CDATA[") {
                let Some(end) = r.find("]]>") else { return self.err("unterminated CDATA") };
                el.text.push_str(&r[9..end]);
                self.i += end + 3;
                continue;
            }
            if r.starts_with("<?") {
                let Some(end) = r.find("?>") else { return self.err("unterminated processing instruction") };
                self.i += 2;
                self.name()?;
                self.i = self.i.max(0);
                let _ = end;
                let Some(e2) = self.rest().find("?>") else { return self.err("unterminated processing instruction") };
                self.i += e2 + 2;
                continue;
            }
            if r.starts_with('<') {
                if !r[1..].chars().next().map(is_name_start).unwrap_or(false) {
                    return self.err("'<' that does not start a tag");
                }
                let c = self.element()?;
                el.children.push(c);
                continue;
            }
            if r.starts_with('&') {
                let c = self.reference()?;
                el.text.push(c);
                continue;
            }
            if r.starts_with("]]>") {
                return self.err("']]>' in character data");
            }
            let c = r.chars().next().unwrap();
            if !is_xml_char(c) {
                return self.err(&format!("illegal character {c:?}"));
            }
            el.text.push(c);
            self.i += c.len_utf8();
        }
    }
}

/// Parse a document (one root element; comments / whitespace / XML declaration around it allowed).
pub fn parse(s: &str) -> Result<El, String> {
    let mut x = X { s, i: 0 };
    if x.rest().starts_with("<?xml") {
        match x.rest().find("?>") {
            Some(e) => x.i += e + 2,
            None => return x.err("unterminated XML declaration"),
        }
    }
    let mut root = None;
    loop {
        x.ws();
        let r = x.rest();
        if r.is_empty() {
            break;
        }
        if r.starts_with("<!--") {
            x.comment()?;
            continue;
        }
        if r.starts_with('<') && root.is_none() {
            root = Some(x.element()?);
            continue;
        }
        return x.err(if root.is_some() { "content after the root element" } else { "text before the root element" });
    }
    root.ok_or_else(|| "no root element".to_string())
}

#[cfg(test)]
mod tests {
    use super::*;
    #[test]
    fn wf() {
        assert!(parse("<a><b>x &amp; y</b><!-- c --><c/></a>").is_ok());
        assert!(parse("<a><b>x & y</b></a>").is_err());
        assert!(parse("<a><b>x</a>").is_err());
        assert!(parse("<a><b>x < y</b></a>").is_err());
        assert!(parse("<a>]]></a>").is_err());
        assert!(parse("<a><!-- a -- b --></a>").is_err());
        assert!(parse("<a></a><b></b>").is_err());
        assert!(parse("<a><Demanda><S>x</S></a>").is_err());
    }
}
