//! Histories of library calls (DESIGN.md §8.6): the component set a file stands for can also be reached through the
//! public API in several steps — read part of the file, push the remaining components into `.data`, `normalize()`
//! again — or be normalized once more after reading. Every such history must reach the same data as reading the whole
//! file at once ("the state reached from elsewhere = the state reached from the start"): a differential oracle without a
//! hand-written expected value. The variants of a file are a deterministic, exhaustively enumerated function of its
//! text: one variant per component line (that line is the one pushed after reading the rest), plus "normalized twice".

use std::collections::BTreeMap;

use cteepbd::types::{Energy, HasValues};
use cteepbd::Components;

use crate::subj;

/// one data line as a component (the library's own line parsers)
pub fn component_of(line: &str) -> Option<Energy> {
    let body = line.split('#').next().unwrap_or("");
    if body.contains("CONSUMO") {
        line.parse::<cteepbd::types::EUsed>().ok().map(Energy::Used)
    } else if body.contains("PRODUCCION") {
        line.parse::<cteepbd::types::EProd>().ok().map(Energy::Prod)
    } else if body.contains("SALIDA") {
        line.parse::<cteepbd::types::EOut>().ok().map(Energy::Out)
    } else if body.contains("AUX") {
        line.parse::<cteepbd::types::EAux>().ok().map(Energy::Aux)
    } else {
        None
    }
}

pub struct Variant {
    pub desc: String,
    /// `Err`: the history was refused (a typed answer, but a difference when the whole file is accepted)
    pub comps: Result<Components, String>,
}

/// All histories of `text` (at most `max_pushed` "line i pushed last" variants: when the file has more component lines
/// the first, the middle and the last are taken, and the cap is reported by the caller's rule text).
pub fn variants(text: &str, max_pushed: usize) -> Vec<Variant> {
    variants_opt(text, max_pushed, false)
}

/// the component sets as they are right after the push, before any further normalization (a caller may evaluate them as
/// they are: whatever they hold is "the components the building has")
pub fn variants_raw(text: &str, max_pushed: usize) -> Vec<Variant> {
    variants_opt(text, max_pushed, true)
}

fn variants_opt(text: &str, max_pushed: usize, raw: bool) -> Vec<Variant> {
    let mut out = vec![];
    let text = text.strip_prefix('\u{feff}').unwrap_or(text);
    let Ok(whole) = subj::parse(text) else { return out };
    if !raw {
        out.push(Variant { desc: "read the file, then normalize() once more".into(), comps: whole.clone().normalize().map_err(|e| format!("{e}")) });
    }
    let lines: Vec<&str> = text.lines().collect();
    let is_comp = |l: &str| {
        let t = l.trim();
        !t.is_empty() && !t.starts_with('#') && !t.starts_with("vector,") && !t.contains("DEMANDA") && component_of(t).is_some()
    };
    let idx: Vec<usize> = (0..lines.len()).filter(|i| is_comp(lines[*i])).collect();
    let chosen: Vec<usize> = if idx.len() <= max_pushed { idx.clone() } else { vec![idx[0], idx[idx.len() / 2], idx[idx.len() - 1]] };
    for i in chosen {
        let l = lines[i].trim();
        // ambient / solar production pushed after the rest was read is a different declaration: the production the first
        // normalization added to cover the uses is, from then on, part of the data, and the pushed line comes on top of it
        let body = l.split('#').next().unwrap_or("");
        if !raw && body.contains("PRODUCCION") && (body.contains("EAMBIENTE") || body.contains("TERMOSOLAR")) {
            continue;
        }
        let Some(extra) = component_of(l) else { continue };
        let head: String = lines.iter().enumerate().filter(|(j, _)| *j != i).map(|(_, l)| format!("{l}\n")).collect();
        let Ok(mut c1) = subj::parse(&head) else { continue };
        // the parser checks that all lines have the same number of steps; a pushed component is the caller's business
        let steps = c1.data.iter().map(|c| c.values().len()).max();
        if steps.is_some() && steps != Some(extra.values().len()) {
            continue;
        }
        if steps.is_none() && [&c1.needs.ACS, &c1.needs.CAL, &c1.needs.REF].iter().any(|n| n.as_ref().map(|v| v.len() != extra.values().len()).unwrap_or(false)) {
            continue;
        }
        c1.data.push(extra);
        if raw {
            out.push(Variant { desc: format!("read the file without line {} (`{}`), push that component (no further normalization)", i + 1, l.chars().take(60).collect::<String>()), comps: Ok(c1) });
        } else {
            out.push(Variant { desc: format!("read the file without line {} (`{}`), push that component, normalize()", i + 1, l.chars().take(60).collect::<String>()), comps: c1.normalize().map_err(|e| format!("{e}")) });
        }
    }
    out
}

/// the data of a component set as sums by (kind, system, tags); comments and the order of components are not data
pub fn table(c: &Components) -> BTreeMap<String, Vec<f64>> {
    let mut m: BTreeMap<String, Vec<f64>> = BTreeMap::new();
    let mut add = |k: String, v: &[f32]| {
        let e = m.entry(k).or_default();
        if e.len() < v.len() {
            e.resize(v.len(), 0.0);
        }
        for (i, x) in v.iter().enumerate() {
            e[i] += *x as f64;
        }
    };
    for e in &c.data {
        match e {
            Energy::Used(u) => add(format!("{}|CONSUMO|{}|{}", u.id, u.service, u.carrier), &u.values),
            Energy::Prod(p) => add(format!("{}|PRODUCCION|{}", p.id, p.source), &p.values),
            Energy::Aux(a) => add(format!("{}|AUX|{}", a.id, a.service), &a.values),
            Energy::Out(o) => add(format!("{}|SALIDA|{}", o.id, o.service), &o.values),
        }
    }
    for (n, v) in [("ACS", &c.needs.ACS), ("CAL", &c.needs.CAL), ("REF", &c.needs.REF)] {
        if let Some(v) = v {
            add(format!("DEMANDA|{n}"), v);
        }
    }
    m.retain(|_, v| v.iter().any(|x| x.abs() > 1e-9));
    m
}

/// first difference between two tables, `None` if they agree within `t`
pub fn table_diff(a: &BTreeMap<String, Vec<f64>>, b: &BTreeMap<String, Vec<f64>>, t: f64) -> Option<String> {
    for (k, v) in a {
        match b.get(k) {
            None => return Some(format!("{k}: {v:?} vs absent")),
            Some(w) => {
                if v.len() != w.len() || v.iter().zip(w).any(|(x, y)| (x - y).abs() > t) {
                    return Some(format!("{k}: {v:?} vs {w:?}"));
                }
            }
        }
    }
    for (k, w) in b {
        if !a.contains_key(k) {
            return Some(format!("{k}: absent vs {w:?}"));
        }
    }
    None
}

/// tolerance for sums of declared values
pub fn table_tol(c: &Components) -> f64 {
    let maxv = c.data.iter().flat_map(|e| e.values().iter()).fold(0.0f64, |a, b| a.max(b.abs() as f64));
    1e-4 + 4e-6 * maxv * c.data.len().max(1) as f64
}
