//! cteepbd-mc: model-checking harness for energiacte/cteepbd. Usage:
//!   cteepbd-mc <ID> [quick|thorough] [--replay <file>]

mod alpha;
mod cli;
mod cmp;
mod core;
mod hist;
mod model;
mod props;
mod refm;
mod sched;
mod subj;
mod tree;
mod xmlcheck;

use std::time::Instant;

/// Run the check in a child process; if the child is killed (signal / abort) find the state that kills it among the
/// breadcrumbs the workers left (the state each was executing), confirm it twice in fresh processes and report.
fn supervise(id: &str, rest: &[String]) -> i32 {
    use std::process::{Command, Stdio};
    let t0 = Instant::now();
    let exe = std::env::current_exe().expect("own path");
    let crumbs = format!("{}/target/run/crumbs-{}", core::verif_root(), std::process::id());
    let _ = std::fs::remove_dir_all(&crumbs);
    let _ = std::fs::create_dir_all(&crumbs);
    let status = Command::new(&exe).arg(id).args(rest).env("VERIF_SUPERVISED", "1").env("VERIF_CRUMBS", &crumbs).stdin(Stdio::null()).status();
    let code = status.as_ref().ok().and_then(|s| s.code());
    if let Some(c @ (0 | 1 | 2)) = code {
        let _ = std::fs::remove_dir_all(&crumbs);
        return c;
    }
    #[cfg(unix)]
    let signal = {
        use std::os::unix::process::ExitStatusExt;
        status.as_ref().ok().and_then(|s| s.signal())
    };
    #[cfg(not(unix))]
    let signal: Option<i32> = None;
    let how = format!("exit code {code:?}, signal {signal:?}");
    let verdict_check = id == "C16" || id == "C08";
    let replaying = rest.iter().any(|a| a == "--replay");
    if replaying {
        let path = rest.iter().skip_while(|a| *a != "--replay").nth(1).cloned().unwrap_or_default();
        let _ = std::fs::remove_dir_all(&crumbs);
        println!("the process executing this input was killed ({how})");
        if verdict_check {
            println!("VIOLATION property={id} replay={path}");
            return 1;
        }
        eprintln!("MACHINERY: the subject killed the process of check {id} on this input (process-level crashes are the subject of C16)");
        return 2;
    }
    // candidates: what each worker was executing
    let mut cands: Vec<(String, String, String)> = vec![];
    if let Ok(rd) = std::fs::read_dir(&crumbs) {
        for e in rd.flatten() {
            if let Ok(b) = std::fs::read(e.path()) {
                let t = String::from_utf8_lossy(&b).to_string();
                let mut it = t.splitn(2, '\n');
                let head = it.next().unwrap_or("").to_string();
                let body = it.next().unwrap_or("");
                let mut ks = head.split(' ');
                let len: usize = ks.next().and_then(|x| x.parse().ok()).unwrap_or(0);
                let (k0, k1) = (ks.next().unwrap_or("0").to_string(), ks.next().unwrap_or("0").to_string());
                // the file is not truncated between states: only the first `len` bytes of the body are valid
                let head_len = head.len() + 1;
                let text = String::from_utf8_lossy(&b[head_len.min(b.len())..(head_len + len).min(b.len())]).to_string();
                let _ = body;
                if !cands.iter().any(|c| c.2 == text) {
                    cands.push((k0, k1, text));
                }
            }
        }
    }
    let _ = std::fs::remove_dir_all(&crumbs);
    cands.sort_by_key(|c| c.2.len());
    let dir = format!("{}/replays/{id}", core::verif_root());
    let _ = std::fs::create_dir_all(&dir);
    let mut confirmed: Vec<(String, String)> = vec![];
    for (n, (k0, k1, text)) in cands.iter().enumerate() {
        let path = format!("{dir}/crash-{n}.json");
        let rec = serde_json::json!({
            "property": id, "clause": "process_not_killed_by_the_library", "features": ["abort"], "config": "in-process execution of the check on this input",
            "observed": format!("the process was killed ({how})"), "expected": "a result or a typed error",
            "text": text, "hash_key": [k0, k1], "replay": format!("{}/bin/check {id} --replay {path}", core::verif_root()),
        });
        let _ = std::fs::write(&path, serde_json::to_string_pretty(&rec).unwrap());
        let dies = || {
            let st = Command::new(&exe).arg(id).arg("--replay").arg(&path).env("VERIF_SUPERVISED", "1").stdin(Stdio::null()).stdout(Stdio::null()).stderr(Stdio::null()).status();
            !matches!(st.ok().and_then(|s| s.code()), Some(0 | 1 | 2))
        };
        if dies() && dies() {
            confirmed.push((path, text.clone()));
            if confirmed.len() >= 3 {
                break;
            }
        } else {
            let _ = std::fs::remove_file(&path);
        }
    }
    let tier = if rest.iter().any(|a| a == "thorough") || std::env::var("VERIF_TIER").as_deref() == Ok("thorough") { "thorough" } else { "quick" };
    if confirmed.is_empty() {
        eprintln!("MACHINERY: the process of check {id} was killed ({how}) and none of the {} states being executed kills a fresh process", cands.len());
        return 2;
    }
    for (path, text) in &confirmed {
        println!("  clause=process_not_killed_by_the_library features=[\"abort\"] observed=the process executing the check was killed ({how}); reproduced twice in fresh processes expected=a result or a typed error");
        println!("  input: {}", text.replace('\n', " | "));
        if verdict_check {
            println!("VIOLATION property={id} replay={path}");
        }
    }
    if !verdict_check {
        eprintln!("MACHINERY: the subject kills the process of check {id} on the input(s) above; process-level crashes are the subject of C16 (and C08), this check cannot run to its end");
        return 2;
    }
    // the exploration did not run to its end: a reduced evidence file
    let ev = serde_json::json!({
        "property_id": id, "tier": tier, "seed": std::env::var("VERIF_SEED").ok().and_then(|s| s.parse::<i64>().ok()).unwrap_or(0),
        "level": if id == "C16" { "fault_enumeration" } else { "model_checking" },
        "coverage": {
            "evaluations": cands.len() + 2 * confirmed.len(), "distinct_nontrivial": confirmed.len(), "states": cands.len(), "transitions": cands.len(), "exhaustive": false,
            "rule": "the exploration ended when the library killed the process; the states being executed at that moment were re-executed twice each in fresh processes; non-trivial = kills the process both times",
            "samples": confirmed.iter().map(|c| c.1.clone()).collect::<Vec<_>>(),
            "explanation": format!("exploration incomplete: process killed ({how})"),
        },
        "assumptions": ["a killed process is attributed to the state a worker was executing, confirmed by re-execution in a fresh process"],
        "wall_s": t0.elapsed().as_secs_f64(), "violations": confirmed.len(), "exit_code": 1,
    });
    for f in [format!("{}/evidence/{id}.json", core::verif_root()), format!("{}/evidence/{tier}/{id}.json", core::verif_root())] {
        let _ = std::fs::write(f, serde_json::to_string_pretty(&ev).unwrap());
    }
    1
}

fn main() {
    let args: Vec<String> = std::env::args().collect();
    if args.len() < 2 {
        eprintln!("usage: cteepbd-mc <ID> [quick|thorough] [--replay <file>]");
        std::process::exit(2);
    }
    let id = args[1].to_uppercase();
    if id == "C07SEQ" {
        // child of C07: nothing may have been prepared in this process before
        std::panic::set_hook(Box::new(|_| {}));
        std::process::exit(props::c07::seq_child());
    }
    if std::env::var("VERIF_SUPERVISED").is_err() && id.len() == 3 && id.starts_with('C') {
        // every check runs as a child of this supervisor: a subject that ABORTS the process (stack overflow,
        // allocation failure, abort()) cannot be caught in-process, but it is an observation all the same
        std::process::exit(supervise(&id, &args[2..]));
    }
    let mut tier = match std::env::var("VERIF_TIER").as_deref() {
        Ok("thorough") => core::Tier::Thorough,
        _ => core::Tier::Quick,
    };
    let mut replay: Option<String> = None;
    let mut i = 2;
    while i < args.len() {
        match args[i].as_str() {
            "quick" => tier = core::Tier::Quick,
            "thorough" => tier = core::Tier::Thorough,
            "--replay" => {
                i += 1;
                replay = args.get(i).cloned();
            }
            other => {
                eprintln!("unknown argument {other}");
                std::process::exit(2);
            }
        }
        i += 1;
    }
    let seed = std::env::var("VERIF_SEED").ok().and_then(|s| s.parse::<u64>().ok()).unwrap_or(0);
    sched::set_seed(seed);
    // the subject's panics are caught and counted; keep stderr readable
    std::panic::set_hook(Box::new(|info| core::note_panic_location(info)));
    let inline_ok = match sched::self_test() {
        Ok(()) => true,
        Err(e) => {
            eprintln!("NOTE: hash-key inference self-test failed ({e}); falling back to isolated executions");
            false
        }
    };
    // build every lazily initialised table now, so that no execution has it built in the middle
    let _ = subj::fsets();
    let _ = subj::raw_j();
    let threads = std::env::var("VERIF_THREADS").ok().and_then(|s| s.parse().ok()).unwrap_or_else(|| std::thread::available_parallelism().map(|n| n.get()).unwrap_or(4));
    let ctx = core::Ctx { tier, seed, threads, t0: Instant::now(), inline_ok };
    if id == "REPLAYTEST" {
        // developer aid: inline execution under an inferred key vs isolated execution under the same key
        let text = std::fs::read_to_string(std::env::var("VERIF_REPLAYTEST").unwrap()).unwrap();
        let v: serde_json::Value = serde_json::from_str(&text).unwrap();
        let t = v["text"].as_str().unwrap().to_string();
        let c = props::c10::C10 { light: false, cli: false };
        for round in 0..3 {
            let key = sched::next_key().unwrap();
            let mut o = core::Out::default();
            core::guarded(&c, &t, &[], &mut o);
            let a: Vec<String> = o.viols.iter().map(|x| format!("{}|{}", x.config, x.observed)).collect();
            let (b, _) = core::replay_record(&c, &t, key);
            let b: Vec<String> = b.iter().map(|x| format!("{}|{}", x.config, x.observed)).collect();
            println!("round {round}: inline {} viols, isolated {} viols, equal={}", a.len(), b.len(), a == b);
        }
        return;
    }
    if id == "BENCH" {
        let text = "0, CONSUMO, ILU, ELECTRICIDAD, 1, 3\n0, PRODUCCION, EL_INSITU, 3, 1\n2, PRODUCCION, EL_COGEN, 1, 1\n2, CONSUMO, COGEN, GASNATURAL, 2, 2\n1, CONSUMO, ACS, EAMBIENTE, 3, 3\n";
        let c = subj::parse(text).unwrap();
        let f = subj::fset("PENINSULA");
        let t = Instant::now();
        for _ in 0..20000 { let _ = subj::parse(text).unwrap(); }
        println!("parse {:?}/it", t.elapsed() / 20000);
        let t = Instant::now();
        for _ in 0..20000 { let _ = subj::eval(&c, f, 0.5, 1.0, true).unwrap(); }
        println!("eval {:?}/it", t.elapsed() / 20000);
        let e = subj::eval(&c, f, 0.5, 1.0, true).unwrap();
        let t = Instant::now();
        for _ in 0..20000 { let _ = format!("{:?}{:?}{:?}", e.balance_cr, e.balance, e.balance_m2); }
        println!("debug fmt {:?}/it", t.elapsed() / 20000);
        let t = Instant::now();
        let mut n = 0;
        for _ in 0..20000 { n += tree::result_flat(&e).len(); }
        println!("result_flat {:?}/it leaves={}", t.elapsed() / 20000, n / 20000);
        return;
    }
    let code = match (id.as_str(), replay) {
        ("C15", None) => props::c15::run(&ctx),
        ("C15", Some(p)) => props::c15::replay(&p),
        ("C16", None) => props::c16::run(&ctx),
        ("C16", Some(p)) => props::c16::replay(&p),
        ("C17", None) => props::c17::run(&ctx),
        ("C17", Some(p)) => props::c17::replay(&p),
        ("C18", None) => props::c18::run(&ctx),
        ("C18", Some(p)) => props::c18::replay(&p),
        ("C19", None) => props::c19::run(&ctx),
        ("C19", Some(p)) => props::c19::replay(&p),
        ("C01", None) => props::c01::run(&ctx),
        ("C01", Some(p)) => props::c01::replay(&p),
        ("C02", None) => props::c02::run(&ctx),
        ("C02", Some(p)) => props::c02::replay(&p),
        ("C03", None) => props::c03::run(&ctx),
        ("C03", Some(p)) => props::c03::replay(&p),
        ("C04", None) => props::c04::run(&ctx),
        ("C04", Some(p)) => props::c04::replay(&p),
        ("C05", None) => props::c05::run(&ctx),
        ("C05", Some(p)) => props::c05::replay(&p),
        ("C06", None) => props::c06::run(&ctx),
        ("C06", Some(p)) => props::c06::replay(&p),
        ("C07", None) => props::c07::run(&ctx),
        ("C07", Some(p)) => props::c07::replay(&p),
        ("C08", None) => props::c08::run(&ctx),
        ("C08", Some(p)) => props::c08::replay(&p),
        ("C09", None) => props::c09::run(&ctx),
        ("C09", Some(p)) => props::c09::replay(&p),
        ("C10", None) => props::c10::run(&ctx),
        ("C10", Some(p)) => props::c10::replay(&p),
        ("C11", None) => props::c11::run(&ctx),
        ("C11", Some(p)) => props::c11::replay(&p),
        ("C12", None) => props::c12::run(&ctx),
        ("C12", Some(p)) => props::c12::replay(&p),
        ("C13", None) => props::c13::run(&ctx),
        ("C13", Some(p)) => props::c13::replay(&p),
        ("C14", None) => props::c14::run(&ctx),
        ("C14", Some(p)) => props::c14::replay(&p),
        _ => {
            eprintln!("unknown property {id}");
            2
        }
    };
    std::process::exit(code);
}
