//! cteepbd-mc: model-checking harness for energiacte/cteepbd. Usage:
//!   cteepbd-mc <ID> [quick|thorough] [--replay <file>]

mod alpha;
mod cli;
mod cmp;
mod core;
mod model;
mod props;
mod refm;
mod sched;
mod subj;
mod tree;
mod xmlcheck;

use std::time::Instant;

fn main() {
    let args: Vec<String> = std::env::args().collect();
    if args.len() < 2 {
        eprintln!("usage: cteepbd-mc <ID> [quick|thorough] [--replay <file>]");
        std::process::exit(2);
    }
    let id = args[1].to_uppercase();
    if id == "C07SEQ" {
        // child of C07: nothing may have been prepared in this process before
        std::panic::set_hook(Box::new(|_| {}));
        std::process::exit(props::c07::seq_child());
    }
    let mut tier = match std::env::var("VERIF_TIER").as_deref() {
        Ok("thorough") => core::Tier::Thorough,
        _ => core::Tier::Quick,
    };
    let mut replay: Option<String> = None;
    let mut i = 2;
    while i < args.len() {
        match args[i].as_str() {
            "quick" => tier = core::Tier::Quick,
            "thorough" => tier = core::Tier::Thorough,
            "--replay" => {
                i += 1;
                replay = args.get(i).cloned();
            }
            other => {
                eprintln!("unknown argument {other}");
                std::process::exit(2);
            }
        }
        i += 1;
    }
    let seed = std::env::var("VERIF_SEED").ok().and_then(|s| s.parse::<u64>().ok()).unwrap_or(0);
    sched::set_seed(seed);
    // the subject's panics are caught and counted; keep stderr readable
    std::panic::set_hook(Box::new(|info| core::note_panic_location(info)));
    let inline_ok = match sched::self_test() {
        Ok(()) => true,
        Err(e) => {
            eprintln!("NOTE: hash-key inference self-test failed ({e}); falling back to isolated executions");
            false
        }
    };
    // build every lazily initialised table now, so that no execution has it built in the middle
    let _ = subj::fsets();
    let _ = subj::raw_j();
    let threads = std::env::var("VERIF_THREADS").ok().and_then(|s| s.parse().ok()).unwrap_or_else(|| std::thread::available_parallelism().map(|n| n.get()).unwrap_or(4));
    let ctx = core::Ctx { tier, seed, threads, t0: Instant::now(), inline_ok };
    if id == "REPLAYTEST" {
        // developer aid: inline execution under an inferred key vs isolated execution under the same key
        let text = std::fs::read_to_string(std::env::var("VERIF_REPLAYTEST").unwrap()).unwrap();
        let v: serde_json::Value = serde_json::from_str(&text).unwrap();
        let t = v["text"].as_str().unwrap().to_string();
        let c = props::c10::C10 { light: false, cli: false };
        for round in 0..3 {
            let key = sched::next_key().unwrap();
            let mut o = core::Out::default();
            core::guarded(&c, &t, &[], &mut o);
            let a: Vec<String> = o.viols.iter().map(|x| format!("{}|{}", x.config, x.observed)).collect();
            let (b, _) = core::replay_record(&c, &t, key);
            let b: Vec<String> = b.iter().map(|x| format!("{}|{}", x.config, x.observed)).collect();
            println!("round {round}: inline {} viols, isolated {} viols, equal={}", a.len(), b.len(), a == b);
        }
        return;
    }
    if id == "BENCH" {
        let text = "0, CONSUMO, ILU, ELECTRICIDAD, 1, 3\n0, PRODUCCION, EL_INSITU, 3, 1\n2, PRODUCCION, EL_COGEN, 1, 1\n2, CONSUMO, COGEN, GASNATURAL, 2, 2\n1, CONSUMO, ACS, EAMBIENTE, 3, 3\n";
        let c = subj::parse(text).unwrap();
        let f = subj::fset("PENINSULA");
        let t = Instant::now();
        for _ in 0..20000 { let _ = subj::parse(text).unwrap(); }
        println!("parse {:?}/it", t.elapsed() / 20000);
        let t = Instant::now();
        for _ in 0..20000 { let _ = subj::eval(&c, f, 0.5, 1.0, true).unwrap(); }
        println!("eval {:?}/it", t.elapsed() / 20000);
        let e = subj::eval(&c, f, 0.5, 1.0, true).unwrap();
        let t = Instant::now();
        for _ in 0..20000 { let _ = format!("{:?}{:?}{:?}", e.balance_cr, e.balance, e.balance_m2); }
        println!("debug fmt {:?}/it", t.elapsed() / 20000);
        let t = Instant::now();
        let mut n = 0;
        for _ in 0..20000 { n += tree::result_flat(&e).len(); }
        println!("result_flat {:?}/it leaves={}", t.elapsed() / 20000, n / 20000);
        return;
    }
    let code = match (id.as_str(), replay) {
        ("C15", None) => props::c15::run(&ctx),
        ("C15", Some(p)) => props::c15::replay(&p),
        ("C16", None) => props::c16::run(&ctx),
        ("C16", Some(p)) => props::c16::replay(&p),
        ("C17", None) => props::c17::run(&ctx),
        ("C17", Some(p)) => props::c17::replay(&p),
        ("C18", None) => props::c18::run(&ctx),
        ("C18", Some(p)) => props::c18::replay(&p),
        ("C19", None) => props::c19::run(&ctx),
        ("C19", Some(p)) => props::c19::replay(&p),
        ("C01", None) => props::c01::run(&ctx),
        ("C01", Some(p)) => props::c01::replay(&p),
        ("C02", None) => props::c02::run(&ctx),
        ("C02", Some(p)) => props::c02::replay(&p),
        ("C03", None) => props::c03::run(&ctx),
        ("C03", Some(p)) => props::c03::replay(&p),
        ("C04", None) => props::c04::run(&ctx),
        ("C04", Some(p)) => props::c04::replay(&p),
        ("C05", None) => props::c05::run(&ctx),
        ("C05", Some(p)) => props::c05::replay(&p),
        ("C06", None) => props::c06::run(&ctx),
        ("C06", Some(p)) => props::c06::replay(&p),
        ("C07", None) => props::c07::run(&ctx),
        ("C07", Some(p)) => props::c07::replay(&p),
        ("C08", None) => props::c08::run(&ctx),
        ("C08", Some(p)) => props::c08::replay(&p),
        ("C09", None) => props::c09::run(&ctx),
        ("C09", Some(p)) => props::c09::replay(&p),
        ("C10", None) => props::c10::run(&ctx),
        ("C10", Some(p)) => props::c10::replay(&p),
        ("C11", None) => props::c11::run(&ctx),
        ("C11", Some(p)) => props::c11::replay(&p),
        ("C12", None) => props::c12::run(&ctx),
        ("C12", Some(p)) => props::c12::replay(&p),
        ("C13", None) => props::c13::run(&ctx),
        ("C13", Some(p)) => props::c13::replay(&p),
        ("C14", None) => props::c14::run(&ctx),
        ("C14", Some(p)) => props::c14::replay(&p),
        _ => {
            eprintln!("unknown property {id}");
            2
        }
    };
    std::process::exit(code);
}
