//! Runner for the real `cteepbd` binary (built from /repo's working tree, hooks off, by bin/check).
//! stdout / stderr go to files (never a pipe that could fill up); wall-clock horizon per run.

use std::path::PathBuf;
use std::process::{Command, Stdio};
use std::sync::atomic::{AtomicU64, Ordering};
use std::time::{Duration, Instant};

pub fn bin() -> String {
    format!("{}/target/cli/debug/cteepbd", crate::core::verif_root())
}
pub fn shim() -> String {
    format!("{}/target/libseed.so", crate::core::verif_root())
}

static N: AtomicU64 = AtomicU64::new(0);

pub struct CliOut {
    pub status: Option<i32>,
    pub signal: Option<i32>,
    pub timed_out: bool,
    pub stdout: String,
    pub stderr: String,
    pub files: Vec<(String, Option<Vec<u8>>)>,
    pub wall: Duration,
}

pub fn available() -> bool {
    std::path::Path::new(&bin()).exists()
}

pub fn scratch() -> PathBuf {
    let n = N.fetch_add(1, Ordering::Relaxed);
    let p = PathBuf::from(format!("{}/target/run/{}-{}", crate::core::verif_root(), std::process::id(), n));
    let _ = std::fs::create_dir_all(&p);
    p
}

/// `inputs`: files written into the scratch dir before the run; `outputs`: files read back after it.
/// In `args`, the token `@name` is replaced by the scratch path of `name`.
pub fn run(args: &[String], inputs: &[(&str, &[u8])], outputs: &[&str], hash_seed: Option<u64>, horizon: Duration) -> CliOut {
    run_env(args, inputs, outputs, hash_seed, horizon, false)
}

/// `stale`: the output paths already exist and hold the (longer) output of an earlier run
pub fn run_env(args: &[String], inputs: &[(&str, &[u8])], outputs: &[&str], hash_seed: Option<u64>, horizon: Duration, stale: bool) -> CliOut {
    let dir = scratch();
    for (n, b) in inputs {
        let _ = std::fs::write(dir.join(n), b);
    }
    if stale {
        let filler = "]]}} </anterior> CONSUMO, ILU, ELECTRICIDAD, resto de un archivo anterior más largo\n".repeat(1 << 14);
        for o in outputs {
            let _ = std::fs::write(dir.join(o), filler.as_bytes());
        }
    }
    let real: Vec<String> = args.iter().map(|a| if let Some(n) = a.strip_prefix('@') { dir.join(n).to_string_lossy().to_string() } else { a.clone() }).collect();
    let so = std::fs::File::create(dir.join("__stdout")).expect("scratch stdout");
    let se = std::fs::File::create(dir.join("__stderr")).expect("scratch stderr");
    let mut cmd = Command::new(bin());
    cmd.args(&real).current_dir(&dir).stdin(Stdio::null()).stdout(so).stderr(se);
    if let Some(s) = hash_seed {
        cmd.env("LD_PRELOAD", shim()).env("VERIF_HASH_SEED", s.to_string());
    }
    let t0 = Instant::now();
    let mut out = CliOut { status: None, signal: None, timed_out: false, stdout: String::new(), stderr: String::new(), files: vec![], wall: Duration::ZERO };
    match cmd.spawn() {
        Ok(mut child) => {
            loop {
                match child.try_wait() {
                    Ok(Some(st)) => {
                        out.status = st.code();
                        #[cfg(unix)]
                        {
                            use std::os::unix::process::ExitStatusExt;
                            out.signal = st.signal();
                        }
                        break;
                    }
                    Ok(None) => {
                        if t0.elapsed() > horizon {
                            let _ = child.kill();
                            let _ = child.wait();
                            out.timed_out = true;
                            break;
                        }
                        std::thread::sleep(Duration::from_millis(1));
                    }
                    Err(_) => break,
                }
            }
        }
        Err(e) => {
            out.stderr = format!("spawn failed: {e}");
        }
    }
    out.wall = t0.elapsed();
    out.stdout = String::from_utf8_lossy(&std::fs::read(dir.join("__stdout")).unwrap_or_default()).to_string();
    if out.stderr.is_empty() {
        out.stderr = String::from_utf8_lossy(&std::fs::read(dir.join("__stderr")).unwrap_or_default()).to_string();
    }
    for o in outputs {
        out.files.push((o.to_string(), std::fs::read(dir.join(o)).ok()));
    }
    let _ = std::fs::remove_dir_all(&dir);
    out
}

pub fn sv(a: &[&str]) -> Vec<String> {
    a.iter().map(|s| s.to_string()).collect()
}
