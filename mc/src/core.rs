//! Shared plumbing: run context, per-state execution (inline / isolated), violation collection,
//! known findings, replays and evidence files.

use std::collections::BTreeMap;
use std::sync::atomic::{AtomicBool, AtomicU64, Ordering};
use std::sync::Mutex;
use std::time::{Duration, Instant};

use serde_json::{json, Value};

use crate::model::{render_lines, Line};
use crate::sched::{self, Key};

/// root of the verification tree: /verif, or the snapshot a background run works in (VERIF_ROOT)
pub fn verif_root() -> &'static str {
    static R: std::sync::OnceLock<String> = std::sync::OnceLock::new();
    R.get_or_init(|| std::env::var("VERIF_ROOT").ok().filter(|s| !s.is_empty()).unwrap_or_else(|| "/verif".to_string()))
}

#[derive(Clone, Copy, PartialEq, Eq, Debug)]
pub enum Tier {
    Quick,
    Thorough,
}

pub struct Ctx {
    pub tier: Tier,
    pub seed: u64,
    pub threads: usize,
    pub t0: Instant,
    pub inline_ok: bool,
}

impl Ctx {
    pub fn quick(&self) -> bool {
        self.tier == Tier::Quick
    }
    /// wall-clock cap for one model run (inside the engine)
    pub fn model_budget(&self) -> Duration {
        let env = std::env::var("VERIF_MODEL_BUDGET_S").ok().and_then(|s| s.parse::<u64>().ok());
        Duration::from_secs(env.unwrap_or(if self.quick() { 180 } else { 1800 }))
    }
    pub fn tier_name(&self) -> &'static str {
        if self.quick() {
            "quick"
        } else {
            "thorough"
        }
    }
}

/// One oracle failure on one state
#[derive(Clone, Debug)]
pub struct Viol {
    pub clause: String,
    /// trigger features (fixed vocabulary per property) used to match known findings
    pub features: Vec<String>,
    pub config: String,
    pub observed: String,
    pub expected: String,
}

/// What one state execution produced
#[derive(Default)]
pub struct Out {
    pub viols: Vec<Viol>,
    /// regime signatures hit (non-vacuity)
    pub regimes: Vec<String>,
    /// executions of the real code
    pub evals: u64,
    /// comparisons implementation <-> reference model / relation
    pub compared: u64,
    /// this state is non-trivial by the property's rule
    pub nontrivial: bool,
    /// typed errors returned by the subject (not violations by themselves)
    pub typed_errors: u64,
}

impl Out {
    pub fn viol(&mut self, clause: &str, features: &[&str], config: impl Into<String>, observed: impl Into<String>, expected: impl Into<String>) {
        self.viols.push(Viol {
            clause: clause.to_string(),
            features: features.iter().map(|s| s.to_string()).collect(),
            config: config.into(),
            observed: observed.into(),
            expected: expected.into(),
        });
    }
    pub fn regime(&mut self, r: impl Into<String>) {
        self.regimes.push(r.into());
    }
}

/// The per-property oracle: runs the REAL code on the file `text` and evaluates the property.
/// Must be a deterministic function of (text, first hash key of the thread).
pub trait StateCheck: Send + Sync + 'static {
    fn check(&self, text: &str, lines: &[Line], out: &mut Out);
}

#[derive(Clone, Debug)]
pub struct Recorded {
    pub viol: Viol,
    pub text: String,
    pub key: Key,
    pub size: usize,
    /// states executed earlier in this process / on this worker thread (first of the process, first of the
    /// thread, the last few of the thread): only used when the violation does not reproduce in isolation
    pub history: Vec<(String, Key)>,
    /// first state of the process and of the thread (for first-caller-wins state), not contiguous with `history`
    pub prefix: Vec<(String, Key)>,
}

#[derive(Default)]
pub struct ModelRun {
    pub name: String,
    pub states: u64,
    pub generated: u64,
    pub max_depth: u64,
    pub done: bool,
    pub wall_s: f64,
}

#[derive(Default)]
pub struct Agg {
    pub regimes: BTreeMap<String, (u64, String)>,
    pub viol_counts: BTreeMap<String, u64>,
    pub recorded: Vec<Recorded>,
    pub samples: Vec<Value>,
    pub by_depth: BTreeMap<usize, u64>,
    pub model_runs: Vec<ModelRun>,
    pub notes: Vec<String>,
    pub distinct_outcomes: std::collections::BTreeSet<u64>,
}

pub struct Shared {
    pub property: &'static str,
    pub stop: AtomicBool,
    pub states_executed: AtomicU64,
    pub evals: AtomicU64,
    pub compared: AtomicU64,
    pub nontrivial: AtomicU64,
    pub typed_errors: AtomicU64,
    pub panics: AtomicU64,
    pub viols: AtomicU64,
    pub inline_ok: bool,
    pub agg: Mutex<Agg>,
}

impl Shared {
    pub fn new(property: &'static str, ctx: &Ctx) -> std::sync::Arc<Self> {
        std::sync::Arc::new(Shared {
            property,
            stop: AtomicBool::new(false),
            states_executed: AtomicU64::new(0),
            evals: AtomicU64::new(0),
            compared: AtomicU64::new(0),
            nontrivial: AtomicU64::new(0),
            typed_errors: AtomicU64::new(0),
            panics: AtomicU64::new(0),
            viols: AtomicU64::new(0),
            inline_ok: ctx.inline_ok,
            agg: Mutex::new(Agg::default()),
        })
    }
    pub fn add_model_run(&self, name: &str, states: u64, generated: u64, max_depth: u64, done: bool, wall_s: f64) {
        // runs of the same model family (same name) are reported as one entry
        let mut g = self.agg.lock().unwrap();
        if let Some(m) = g.model_runs.iter_mut().find(|m| m.name == name) {
            m.states += states;
            m.generated += generated;
            m.max_depth = m.max_depth.max(max_depth);
            m.done &= done;
            m.wall_s += wall_s;
        } else {
            g.model_runs.push(ModelRun { name: name.to_string(), states, generated, max_depth, done, wall_s });
        }
    }
    pub fn note(&self, s: impl Into<String>) {
        self.agg.lock().unwrap().notes.push(s.into());
    }
}

pub fn full_text(base: &str, lines: &[Line]) -> String {
    let mut t = String::with_capacity(base.len() + 64 * lines.len());
    t.push_str(base);
    if !base.is_empty() && !base.ends_with('\n') {
        t.push('\n');
    }
    t.push_str(&render_lines(lines));
    t
}

/// number of immediately preceding states of the same worker thread kept for history replays
const HIST_LEN: usize = 6;
static PROC_FIRST: std::sync::OnceLock<(String, Key)> = std::sync::OnceLock::new();
thread_local! {
    static HIST: std::cell::RefCell<(Option<(String, Key)>, std::collections::VecDeque<(String, Key)>)> = const { std::cell::RefCell::new((None, std::collections::VecDeque::new())) };
}

/// (prefix, window): the first state of the process and of this thread; the last HIST_LEN states of this thread
fn history_snapshot() -> (Vec<(String, Key)>, Vec<(String, Key)>) {
    let mut pre: Vec<(String, Key)> = vec![];
    if let Some(f) = PROC_FIRST.get() {
        pre.push(f.clone());
    }
    let win = HIST.with(|x| {
        let x = x.borrow();
        if let Some(f) = &x.0 {
            if !pre.contains(f) {
                pre.push(f.clone());
            }
        }
        x.1.iter().cloned().collect::<Vec<_>>()
    });
    (pre, win)
}

fn history_push(text: &str, key: Key) {
    let _ = PROC_FIRST.set((text.to_string(), key));
    HIST.with(|x| {
        let mut x = x.borrow_mut();
        if x.0.is_none() {
            x.0 = Some((text.to_string(), key));
        }
        x.1.push_back((text.to_string(), key));
        if x.1.len() > HIST_LEN {
            x.1.pop_front();
        }
    });
}

thread_local! {
    static LAST_PANIC: std::cell::RefCell<String> = const { std::cell::RefCell::new(String::new()) };
}

/// panic hook: remember where the last panic of this thread happened (nothing is printed)
pub fn note_panic_location(info: &std::panic::PanicHookInfo<'_>) {
    let loc = info.location().map(|l| format!("{}:{}", l.file().rsplit("/src/").next().unwrap_or(l.file()), l.line())).unwrap_or_default();
    LAST_PANIC.with(|p| *p.borrow_mut() = loc);
}

pub fn last_panic_location() -> String {
    LAST_PANIC.with(|p| p.borrow().clone())
}

fn panic_msg(e: Box<dyn std::any::Any + Send>) -> String {
    if let Some(s) = e.downcast_ref::<&str>() {
        s.to_string()
    } else if let Some(s) = e.downcast_ref::<String>() {
        s.clone()
    } else {
        "panic".into()
    }
}

/// Execute one check under catch_unwind; a panic escaping a check is recorded as clause `panic`.
pub fn guarded<C: StateCheck + ?Sized>(check: &C, text: &str, lines: &[Line], out: &mut Out) -> Option<String> {
    let r = std::panic::catch_unwind(std::panic::AssertUnwindSafe(|| check.check(text, lines, out)));
    // the hook log is thread local: never let it grow
    let _ = cteepbd::verif_hooks::take();
    r.err().map(panic_msg)
}

/// Run one state: infer the hash key, execute, merge results.
thread_local! {
    static CRUMB: std::cell::RefCell<Option<std::fs::File>> = const { std::cell::RefCell::new(None) };
}
static CRUMB_N: AtomicU64 = AtomicU64::new(0);

/// breadcrumb for the supervisor: the state this worker thread is about to execute (see main::supervise)
fn leave_crumb(key: Key, text: &str) {
    let Ok(dir) = std::env::var("VERIF_CRUMBS") else { return };
    CRUMB.with(|c| {
        let mut c = c.borrow_mut();
        if c.is_none() {
            let n = CRUMB_N.fetch_add(1, Ordering::Relaxed);
            *c = std::fs::OpenOptions::new().create(true).write(true).truncate(true).open(format!("{dir}/{n}.txt")).ok();
        }
        if let Some(f) = c.as_mut() {
            use std::os::unix::fs::FileExt;
            // one write, no truncation: the first field is the length of the text that is valid
            let buf = format!("{:010} {} {}\n{}", text.len(), key.0, key.1, text);
            let _ = f.write_all_at(buf.as_bytes(), 0);
        }
    });
}

pub fn run_state<C: StateCheck>(check: &C, base: &str, lines: &[Line], depth: usize, shared: &Shared, out: &mut Out) {
    let text = full_text(base, lines);
    let key: Key;
    let panic: Option<String>;
    if shared.inline_ok {
        match sched::next_key() {
            Some(k) => {
                key = k;
                leave_crumb(key, &text);
                panic = guarded(check, &text, lines, out);
            }
            None => {
                // fall back to isolated execution with a fresh known key
                key = (0xA5A5u64 << 40 | shared.states_executed.load(Ordering::Relaxed), sched::K1);
                leave_crumb(key, &text);
                panic = sched::isolated(key, || guarded(check, &text, lines, out));
            }
        }
    } else {
        key = ((0x5A5Au64 << 40) + shared.states_executed.load(Ordering::Relaxed), sched::K1);
        leave_crumb(key, &text);
        panic = sched::isolated(key, || guarded(check, &text, lines, out));
    }
    merge(shared, &text, lines.len() + base.lines().count(), depth, key, out, panic);
}

pub fn merge(shared: &Shared, text: &str, size: usize, depth: usize, key: Key, out: &mut Out, panic: Option<String>) {
    let (prefix, history) = if out.viols.is_empty() { (vec![], vec![]) } else { history_snapshot() };
    history_push(text, key);
    let n = shared.states_executed.fetch_add(1, Ordering::Relaxed);
    shared.evals.fetch_add(out.evals, Ordering::Relaxed);
    shared.compared.fetch_add(out.compared, Ordering::Relaxed);
    shared.typed_errors.fetch_add(out.typed_errors, Ordering::Relaxed);
    if out.nontrivial {
        shared.nontrivial.fetch_add(1, Ordering::Relaxed);
    }
    if let Some(p) = &panic {
        shared.panics.fetch_add(1, Ordering::Relaxed);
        if shared.property == "C16" || shared.property == "C08" {
            out.viol("no_panic", &[], "", format!("panic: {p}"), "no panic");
        }
    }
    let want_sample = n < 3 || (n % 9973 == 0 && n < 100_000);
    if out.viols.is_empty() && out.regimes.is_empty() && !want_sample && panic.is_none() {
        let mut g = shared.agg.lock().unwrap();
        *g.by_depth.entry(depth).or_default() += 1;
        return;
    }
    let mut g = shared.agg.lock().unwrap();
    *g.by_depth.entry(depth).or_default() += 1;
    if let Some(p) = &panic {
        if g.notes.len() < 20 {
            g.notes.push(format!("panic while checking a state (counted, state skipped): {p} | input: {}", text.replace('\n', " | ")));
        }
    }
    for r in out.regimes.drain(..) {
        let e = g.regimes.entry(r).or_insert_with(|| (0, text.to_string()));
        e.0 += 1;
    }
    if want_sample && g.samples.len() < 12 {
        g.samples.push(json!({"depth": depth, "file": text, "hash_key": [key.0, key.1], "violations": out.viols.len()}));
    }
    for v in out.viols.drain(..) {
        shared.viols.fetch_add(1, Ordering::Relaxed);
        let sig = format!("{}|{}", v.clause, v.features.join("+"));
        let c = g.viol_counts.entry(sig.clone()).or_default();
        *c += 1;
        let keep_for_sig = g.recorded.iter().filter(|r| format!("{}|{}", r.viol.clause, r.viol.features.join("+")) == sig).count();
        if keep_for_sig < 6 {
            g.recorded.push(Recorded { viol: v, text: text.to_string(), key, size, history: history.clone(), prefix: prefix.clone() });
        } else {
            // keep the smallest inputs per signature
            if let Some((idx, worst)) = g
                .recorded
                .iter()
                .enumerate()
                .filter(|(_, r)| format!("{}|{}", r.viol.clause, r.viol.features.join("+")) == sig)
                .max_by_key(|(_, r)| (r.size, r.text.len()))
                .map(|(i, r)| (i, (r.size, r.text.len())))
            {
                if (size, text.len()) < worst {
                    g.recorded[idx] = Recorded { viol: v, text: text.to_string(), key, size, history: history.clone(), prefix: prefix.clone() };
                }
            }
        }
    }
}

// ---------------------------------------------------------------------------------------------------
// Known findings

#[derive(Clone, Debug)]
pub struct Finding {
    pub witness: String,
    pub id: String,
    pub property: String,
    pub clause: String,
    pub trigger: Vec<String>,
    pub what: String,
}

pub fn load_findings(property: &str) -> Vec<Finding> {
    let path = format!("{}/known_findings.json", verif_root());
    let Ok(txt) = std::fs::read_to_string(&path) else {
        return vec![];
    };
    let v: Value = serde_json::from_str(&txt).unwrap_or_else(|e| {
        eprintln!("MACHINERY: known_findings.json unreadable: {e}");
        std::process::exit(2)
    });
    let mut out = vec![];
    for f in v["findings"].as_array().cloned().unwrap_or_default() {
        if f["property"].as_str() == Some(property) {
            out.push(Finding {
                witness: f["witness"].as_str().unwrap_or("").to_string(),
                id: f["id"].as_str().unwrap_or("").to_string(),
                property: property.to_string(),
                clause: f["clause"].as_str().unwrap_or("").to_string(),
                trigger: f["trigger"].as_array().map(|a| a.iter().filter_map(|x| x.as_str().map(String::from)).collect()).unwrap_or_default(),
                what: f["what"].as_str().unwrap_or("").to_string(),
            });
        }
    }
    out
}

pub fn matches_finding(f: &Finding, v: &Viol) -> bool {
    f.clause == v.clause && f.trigger.iter().all(|t| v.features.contains(t))
}

// ---------------------------------------------------------------------------------------------------
// Finish: replay-twice, known findings, evidence, exit code

pub struct Finish {
    pub level: &'static str,
    pub rule: String,
    pub assumptions: Vec<String>,
    pub required_regimes: Vec<String>,
    pub extra: Value,
}

pub fn replay_record<C: StateCheck + ?Sized>(check: &C, text: &str, key: Key) -> (Vec<Viol>, Option<String>) {
    sched::isolated(key, || {
        let mut out = Out::default();
        let p = guarded(check, text, &[], &mut out);
        (out.viols, p)
    })
}

fn viol_key(v: &Viol) -> String {
    format!("{}|{}|{}|{}|{}", v.clause, v.features.join("+"), v.config, v.observed, v.expected)
}

/// Conclude a run: classify violations, write evidence, print verdict lines, return the exit code.
pub fn finish(ctx: &Ctx, shared: &Shared, check: &dyn StateCheck, fin: Finish) -> i32 {
    let property = shared.property;
    let findings = load_findings(property);
    let mut g = shared.agg.lock().unwrap();
    let mut exit = 0;

    // required regimes (non-vacuity)
    let mut missing = vec![];
    for r in &fin.required_regimes {
        if !g.regimes.contains_key(r) {
            missing.push(r.clone());
        }
    }

    // classify
    let mut known_hits: BTreeMap<String, u64> = BTreeMap::new();
    let mut unlisted: Vec<Recorded> = vec![];
    let mut recs = g.recorded.clone();
    recs.sort_by_key(|r| (r.size, r.text.len()));
    for r in &recs {
        if let Some(f) = findings.iter().find(|f| matches_finding(f, &r.viol)) {
            *known_hits.entry(f.id.clone()).or_default() += 1;
        } else {
            unlisted.push(r.clone());
        }
    }
    // counts per signature for known findings (all, not only recorded)
    let mut known_total: BTreeMap<String, u64> = BTreeMap::new();
    let mut unlisted_total = 0u64;
    for (sig, c) in &g.viol_counts {
        let mut it = sig.splitn(2, '|');
        let clause = it.next().unwrap_or("").to_string();
        let feats: Vec<String> = it.next().unwrap_or("").split('+').filter(|s| !s.is_empty()).map(String::from).collect();
        let v = Viol { clause, features: feats, config: String::new(), observed: String::new(), expected: String::new() };
        if let Some(f) = findings.iter().find(|f| matches_finding(f, &v)) {
            *known_total.entry(f.id.clone()).or_default() += c;
        } else {
            unlisted_total += c;
        }
    }

    let mut replay_paths = vec![];
    // violations seen while exploring that reproduce neither alone nor after their recorded history
    let mut unconfirmed: Vec<String> = vec![];
    let _ = std::fs::remove_dir_all(format!("{}/replays/{property}", verif_root()));
    if !unlisted.is_empty() {
        // replay-twice rule on the smallest unlisted violation of each signature
        let mut seen_sig = std::collections::BTreeSet::new();
        let dir = format!("{}/replays/{property}", verif_root());
        let _ = std::fs::create_dir_all(&dir);
        for r in &unlisted {
            let sig0 = format!("{}|{}", r.viol.clause, r.viol.features.join("+"));
            if !seen_sig.insert(sig0.clone()) {
                continue;
            }
            let (v1, p1) = replay_record(check, &r.text, r.key);
            let (v2, p2) = replay_record(check, &r.text, r.key);
            // observations made on free-running child processes (feature "process") are outside the scheduler's
            // control by design; identity is required of everything else
            let controlled = |v: &&Viol| !v.features.iter().any(|f| f == "process");
            let k1: Vec<String> = v1.iter().filter(controlled).map(viol_key).collect();
            let k2: Vec<String> = v2.iter().filter(controlled).map(viol_key).collect();
            // reproduced = the isolated execution under the recorded key shows the same violation; the same
            // clause with the same trigger features counts (the text of an inline execution can differ when a
            // lazily initialised table was built in the middle of it), and the replayed text is what is reported
            let sig = |v: &Viol| format!("{}|{}", v.clause, v.features.join("+"));
            let same_sig: Option<&Viol> = v1.iter().find(|v| sig(v) == sig(&r.viol));
            let reproduced = k1.contains(&viol_key(&r.viol)) || same_sig.is_some() || (r.viol.clause == "no_panic" && p1.is_some());
            let mut r = r.clone();
            if !k1.contains(&viol_key(&r.viol)) {
                if let Some(v) = same_sig {
                    r.viol = v.clone();
                }
            }
            let r = &r;
            if k1 == k2 && p1 == p2 && !reproduced && !(r.history.is_empty() && r.prefix.is_empty()) {
                // not a property of this state alone: try the state after its history, twice, each time in a fresh
                // child process. Mode "window": the states this worker thread executed immediately before, on one
                // thread started with the recorded hash key of the first of them (so every state gets the key it
                // had). Mode "full": additionally the first state of the process and of the thread before them.
                let n = replay_paths.len();
                let path = format!("{dir}/{n}.json");
                let mut r2 = r.clone();
                r2.viol.features.push("history".to_string());
                let hj = |h: &Vec<(String, Key)>| -> Vec<Value> { h.iter().map(|(t, k)| json!({"text": t, "hash_key": [k.0.to_string(), k.1.to_string()]})).collect() };
                let mut accepted = false;
                for mode in ["window", "full"] {
                    let hist: Vec<(String, Key)> = if mode == "window" { r2.history.clone() } else { r2.prefix.iter().chain(r2.history.iter()).cloned().collect() };
                    if hist.is_empty() || (mode == "full" && r2.prefix.is_empty()) {
                        continue;
                    }
                    let rec = json!({
                        "property": property, "clause": r2.viol.clause, "features": r2.viol.features, "config": r2.viol.config,
                        "observed": r2.viol.observed, "expected": r2.viol.expected,
                        "history_mode": mode, "history": hj(&hist), "text": r2.text, "hash_key": [r2.key.0.to_string(), r2.key.1.to_string()],
                        "replay": format!("{}/bin/check {property} --replay {path}", verif_root()),
                    });
                    std::fs::write(&path, serde_json::to_string_pretty(&rec).unwrap()).ok();
                    let run = || -> (Option<i32>, Vec<String>) {
                        match std::process::Command::new(std::env::current_exe().unwrap_or_default()).args([property, "--replay", &path]).output() {
                            Ok(o) => (o.status.code(), String::from_utf8_lossy(&o.stdout).lines().filter(|l| l.starts_with("  clause=")).map(String::from).collect()),
                            Err(_) => (None, vec![]),
                        }
                    };
                    let (c1, l1) = run();
                    let (c2, l2) = run();
                    let want = format!("  clause={} features={:?}", r.viol.clause, r.viol.features);
                    if c1 == Some(1) && c2 == Some(1) && l1 == l2 && l1.iter().any(|l| l.starts_with(&want)) {
                        eprintln!("NOTE: violation of clause {} depends on the states executed before it; reported with its history ({mode}, {} earlier states)", r.viol.clause, hist.len());
                        accepted = true;
                        break;
                    }
                }
                let label = format!("clause {} features {:?}", r.viol.clause, r.viol.features);
                if accepted {
                    replay_paths.push((path, r2));
                    unconfirmed.retain(|u| *u != label);
                    continue;
                }
                let _ = std::fs::remove_file(&path);
                if !unconfirmed.contains(&label) {
                    unconfirmed.push(label);
                }
                // the next recorded instance of the same signature (another history) gets its chance
                seen_sig.remove(&sig0);
                continue;
            }
            if k1 != k2 || p1 != p2 || !reproduced {
                eprintln!(
                    "MACHINERY: replay of a violation diverged (clause {} features {:?} key {:?}): two_replays_equal={} panics_equal={} reproduced={} replay_violations={} ; first {:?} second {:?} original {:?}",
                    r.viol.clause, r.viol.features, r.key, k1 == k2, p1 == p2, reproduced, k1.len(), k1, k2, viol_key(&r.viol)
                );
                eprintln!("input:\n{}", r.text);
                exit = 2;
                continue;
            }
            let n = replay_paths.len();
            let path = format!("{dir}/{n}.json");
            let rec = json!({
                "property": property, "clause": r.viol.clause, "features": r.viol.features, "config": r.viol.config,
                "observed": r.viol.observed, "expected": r.viol.expected,
                "text": r.text, "hash_key": [r.key.0.to_string(), r.key.1.to_string()],
                "replay": format!("{}/bin/check {property} --replay {path}", verif_root()),
            });
            std::fs::write(&path, serde_json::to_string_pretty(&rec).unwrap()).ok();
            replay_paths.push((path, r.clone()));
        }
    }

    if !unconfirmed.is_empty() {
        if replay_paths.is_empty() && exit == 0 {
            eprintln!("MACHINERY: {} violation signature(s) seen during the exploration reproduce neither in isolation nor after their recorded history: {:?}", unconfirmed.len(), unconfirmed);
            exit = 2;
        } else {
            println!("NOTE: {} further violation signature(s) seen during the exploration could not be reproduced in a fresh process (history-dependent like the reported ones?): {:?}", unconfirmed.len(), unconfirmed);
        }
    }
    for f in &findings {
        // the witness input of every open finding is replayed on each run
        if !f.witness.is_empty() {
            let wp = format!("{}/{}", verif_root(), f.witness);
            match std::fs::read_to_string(&wp).ok().and_then(|t| serde_json::from_str::<Value>(&t).ok()) {
                Some(w) => {
                    let text = w["text"].as_str().unwrap_or("").to_string();
                    let k0 = w["hash_key"][0].as_str().and_then(|s| s.parse::<u64>().ok()).unwrap_or(1 << 40);
                    let k1 = w["hash_key"][1].as_str().and_then(|s| s.parse::<u64>().ok()).unwrap_or(sched::K1);
                    let (vs, _) = replay_record(check, &text, (k0, k1));
                    if !vs.iter().any(|v| matches_finding(f, v)) {
                        println!("NOTE: known finding {} does not reproduce on its witness {} any more (stale entry?)", f.id, f.witness);
                    }
                }
                None => println!("NOTE: witness {} of known finding {} is unreadable", f.witness, f.id),
            }
        }
        let hits = known_total.get(&f.id).copied().unwrap_or(0);
        println!("KNOWN-FINDING: property={} {} {} hits={}", property, f.id, f.what, hits);
    }
    let panics = shared.panics.load(Ordering::Relaxed);
    if panics > 0 && property != "C16" && property != "C08" {
        println!("NOTE: {panics} state(s) made the subject panic while being checked; they were skipped (panics are C16's subject)");
    }

    let states: u64 = g.model_runs.iter().map(|m| m.states).sum::<u64>().max(shared.states_executed.load(Ordering::Relaxed));
    let transitions: u64 = g.model_runs.iter().map(|m| m.generated).sum::<u64>().max(1);
    let all_done = g.model_runs.iter().all(|m| m.done);
    let executed = shared.states_executed.load(Ordering::Relaxed);
    let wall = ctx.t0.elapsed().as_secs_f64();

    if exit == 0 && !replay_paths.is_empty() {
        exit = 1;
    }
    if exit == 0 && !missing.is_empty() {
        eprintln!("MACHINERY: required regimes never reached (vacuous exploration): {:?}", missing);
        exit = 2;
    }
    if exit == 0 && executed == 0 {
        eprintln!("MACHINERY: no state was executed");
        exit = 2;
    }

    let regimes_json: Vec<Value> = g.regimes.iter().map(|(k, (c, s))| json!({"regime": k, "states": c, "first_input": s})).collect();
    let mut samples = g.samples.clone();
    for (k, (_, s)) in g.regimes.iter().take(6) {
        samples.push(json!({"regime": k, "file": s}));
    }
    let model_runs: Vec<Value> = g
        .model_runs
        .iter()
        .map(|m| json!({"model": m.name, "unique_states": m.states, "generated_states": m.generated, "max_depth": m.max_depth, "completed": m.done, "wall_s": m.wall_s}))
        .collect();
    let mut coverage = json!({
        "states": states.max(1),
        "transitions": transitions,
        "traces_validated_against_impl": shared.compared.load(Ordering::Relaxed).max(executed),
        "states_executed_on_real_code": executed,
        "evaluations": shared.evals.load(Ordering::Relaxed).max(1),
        "distinct_nontrivial": shared.nontrivial.load(Ordering::Relaxed),
        "rule": fin.rule,
        "samples": samples,
        "exhaustive": all_done,
        "models": model_runs,
        "states_by_depth": g.by_depth.iter().map(|(d, c)| json!({"depth": d, "states": c})).collect::<Vec<_>>(),
        "typed_errors_returned_by_subject": shared.typed_errors.load(Ordering::Relaxed),
        "panics_while_checking": panics,
        "regimes": regimes_json,
        "distinct_regimes": g.regimes.len(),
        "required_regimes": fin.required_regimes,
        "required_regimes_missing": missing,
        "violation_signatures": g.viol_counts.iter().map(|(k, c)| json!({"signature": k, "count": c})).collect::<Vec<_>>(),
        "known_finding_hits": known_total,
        "unlisted_violations": unlisted_total,
        "hash_order_mode": if shared.inline_ok { "inline (keys inferred and recorded per state)" } else { "isolated (fresh thread per state)" },
        "notes": g.notes,
    });
    if !all_done {
        coverage["cap"] = json!(format!("wall-clock cap of {:?} per model fired; see models[].completed and states_by_depth", ctx.model_budget()));
    }
    if let Value::Object(extra) = fin.extra {
        for (k, v) in extra {
            coverage[k] = v;
        }
    }
    let ev = json!({
        "property_id": property,
        "tier": ctx.tier_name(),
        "seed": ctx.seed,
        "level": fin.level,
        "coverage": coverage,
        "assumptions": fin.assumptions,
        "wall_s": wall,
        "violations": unlisted_total,
        "exit_code": exit,
    });
    let _ = std::fs::create_dir_all(format!("{}/evidence", verif_root()));
    let evpath = format!("{}/evidence/{property}.json", verif_root());
    if let Err(e) = std::fs::write(&evpath, serde_json::to_string_pretty(&ev).unwrap()) {
        eprintln!("MACHINERY: cannot write evidence: {e}");
        exit = 2;
    }
    // keep the last evidence of each tier as well (evidence/<tier>/<id>.json)
    let tdir = format!("{}/evidence/{}", verif_root(), ctx.tier_name());
    let _ = std::fs::create_dir_all(&tdir);
    let _ = std::fs::write(format!("{tdir}/{property}.json"), serde_json::to_string_pretty(&ev).unwrap());
    g.recorded.clear();

    println!(
        "{property} {}: states={} transitions={} executed={} evals={} compared={} nontrivial={} regimes={} typed_errors={} violations(unlisted)={} known={} exhaustive={} wall={:.1}s",
        ctx.tier_name(),
        states,
        transitions,
        executed,
        shared.evals.load(Ordering::Relaxed),
        shared.compared.load(Ordering::Relaxed),
        shared.nontrivial.load(Ordering::Relaxed),
        ev["coverage"]["distinct_regimes"],
        shared.typed_errors.load(Ordering::Relaxed),
        unlisted_total,
        known_total.values().sum::<u64>(),
        all_done,
        wall
    );
    for (path, r) in &replay_paths {
        println!("  clause={} features={:?} config={} observed={} expected={}", r.viol.clause, r.viol.features, r.viol.config, r.viol.observed, r.viol.expected);
        println!("  input: {}", r.text.trim_end().replace('\n', " | "));
        println!("VIOLATION property={} replay={}", property, path);
    }
    exit
}

/// `--replay <file>`: re-execute one recorded case without the explorer.
pub fn replay_file(property: &str, check: &dyn StateCheck, path: &str) -> i32 {
    let txt = match std::fs::read_to_string(path) {
        Ok(t) => t,
        Err(e) => {
            eprintln!("MACHINERY: cannot read replay file {path}: {e}");
            return 2;
        }
    };
    let v: Value = match serde_json::from_str(&txt) {
        Ok(v) => v,
        Err(e) => {
            eprintln!("MACHINERY: bad replay file: {e}");
            return 2;
        }
    };
    let text = v["text"].as_str().unwrap_or("").to_string();
    let k0 = v["hash_key"][0].as_str().and_then(|s| s.parse::<u64>().ok()).unwrap_or(1 << 40);
    let k1 = v["hash_key"][1].as_str().and_then(|s| s.parse::<u64>().ok()).unwrap_or(sched::K1);
    let history: Vec<(String, Key)> = v["history"]
        .as_array()
        .map(|a| {
            a.iter()
                .filter_map(|x| {
                    let t = x["text"].as_str()?.to_string();
                    let h0 = x["hash_key"][0].as_str().and_then(|s| s.parse::<u64>().ok())?;
                    let h1 = x["hash_key"][1].as_str().and_then(|s| s.parse::<u64>().ok())?;
                    Some((t, (h0, h1)))
                })
                .collect()
        })
        .unwrap_or_default();
    let (viols, panic) = if history.is_empty() {
        replay_record(check, &text, (k0, k1))
    } else {
        // the earlier states first, on the same fresh thread, started with the hash key the first of them had
        // (their verdicts are not looked at)
        sched::isolated(history[0].1, || {
            for (h, _) in &history {
                let mut o = Out::default();
                let _ = guarded(check, h, &[], &mut o);
            }
            let mut out = Out::default();
            let p = guarded(check, &text, &[], &mut out);
            (out.viols, p)
        })
    };
    for (i, (h, _)) in history.iter().enumerate() {
        println!("earlier state {i}:\n{h}");
    }
    println!("replay of {path} (property {property}, hash key ({k0},{k1})):\n{text}");
    if let Some(p) = &panic {
        println!("  PANIC: {p}");
    }
    for x in &viols {
        println!("  clause={} features={:?} config={} observed={} expected={}", x.clause, x.features, x.config, x.observed, x.expected);
    }
    let findings = load_findings(property);
    let unlisted = viols.iter().filter(|x| !findings.iter().any(|f| matches_finding(f, x))).count();
    if unlisted > 0 || (panic.is_some() && (property == "C16" || property == "C08")) {
        println!("VIOLATION property={property} replay={path}");
        1
    } else {
        println!("no unlisted violation on this input");
        0
    }
}
