//! Thin wrappers around the subject (the real cteepbd library) + factor sets + numeric policy.

use std::sync::OnceLock;

use cteepbd::types::{EnergyPerformance, HasValues, RenNrenCo2};
use cteepbd::{cte, energy_performance, Components, Factors, UserWF};

pub use cteepbd::error::EpbdError;

pub fn parse(text: &str) -> Result<Components, EpbdError> {
    text.parse::<Components>()
}

pub fn err_kind(e: &EpbdError) -> &'static str {
    match e {
        EpbdError::ParseError(_) => "ParseError",
        EpbdError::WrongInput(_) => "WrongInput",
        EpbdError::MissingFactor(_) => "MissingFactor",
    }
}

pub fn eval(c: &Components, f: &Factors, k: f32, area: f32, lm: bool) -> Result<EnergyPerformance, EpbdError> {
    energy_performance(c, f, k, area, lm)
}

pub const LOCS: [&str; 4] = ["PENINSULA", "BALEARES", "CANARIAS", "CEUTAMELILLA"];

pub fn no_user() -> UserWF<Option<RenNrenCo2>> {
    UserWF { red1: None, red2: None }
}

pub fn reg(loc: &str) -> Factors {
    cte::wfactors_from_loc(loc, &cte::CTE_LOCWF_RITE2014, no_user(), cte::CTE_USERWF).expect("regulatory factors")
}

pub fn reg_user(loc: &str, red1: Option<(f32, f32, f32)>, red2: Option<(f32, f32, f32)>) -> Factors {
    cte::wfactors_from_loc(
        loc,
        &cte::CTE_LOCWF_RITE2014,
        UserWF { red1: red1.map(Into::into), red2: red2.map(Into::into) },
        cte::CTE_USERWF,
    )
    .expect("regulatory factors")
}

/// the same regulatory set prepared from its own text (a saved factors file, which already has RED1 / RED2 lines)
/// with the user's values given on top
pub fn reg_user_from_text(loc: &str, red1: Option<(f32, f32, f32)>, red2: Option<(f32, f32, f32)>) -> Option<Factors> {
    let text = format!("{}", fset(loc));
    cte::wfactors_from_str(&text, UserWF { red1: red1.map(Into::into), red2: red2.map(Into::into) }, cte::CTE_USERWF).ok()
}

const CARRIERS: [&str; 12] = [
    "ELECTRICIDAD", "GASNATURAL", "BIOMASA", "BIOMASADENSIFICADA", "EAMBIENTE", "TERMOSOLAR", "RED1", "RED2", "GASOLEO", "GLP", "CARBON",
    "BIOCARBURANTE",
];

/// User file in which every factor is a distinct dyadic triple, so that a wrong lookup cannot cancel.
/// `with_cogen`: also user-supplied export factors for cogenerated electricity.
pub fn skew_text(with_cogen: bool) -> String {
    let mut s = String::from("#META CTE_FUENTE: SKEW\nvector, fuente, uso, step, ren, nren, co2\n");
    let mut j = 0u32;
    let mut push = |s: &mut String, c: &str, src: &str, dest: &str, step: &str| {
        j += 1;
        let ren = (j * 3 + 1) as f32 / 8.0;
        let nren = (j * 5 + 2) as f32 / 16.0;
        let co2 = (j * 7 + 3) as f32 / 32.0;
        s.push_str(&format!("{c}, {src}, {dest}, {step}, {ren}, {nren}, {co2}\n"));
    };
    for c in CARRIERS {
        push(&mut s, c, "RED", "SUMINISTRO", "A");
    }
    for c in ["ELECTRICIDAD", "EAMBIENTE", "TERMOSOLAR"] {
        for dest in ["A_RED", "A_NEPB"] {
            for step in ["A", "B"] {
                push(&mut s, c, "INSITU", dest, step);
            }
        }
    }
    if with_cogen {
        for dest in ["A_RED", "A_NEPB"] {
            for step in ["A", "B"] {
                push(&mut s, "ELECTRICIDAD", "COGEN", dest, step);
            }
        }
    }
    s
}

pub fn from_text(t: &str) -> Result<Factors, EpbdError> {
    cte::wfactors_from_str(t, no_user(), cte::CTE_USERWF)
}

pub const RAW_J: &str = "vector, fuente, uso, step, ren, nren, co2
ELECTRICIDAD, RED, SUMINISTRO, A, 0.5, 2.0, 0.42
ELECTRICIDAD, INSITU, SUMINISTRO,   A, 1.0, 0.0, 0.0
ELECTRICIDAD, INSITU, A_RED, A, 1.0, 0.0, 0.0
ELECTRICIDAD, INSITU, A_RED, B, 0.5, 2.0, 0.42
ELECTRICIDAD, INSITU, A_NEPB, A, 1.0, 0.0, 0.0
ELECTRICIDAD, INSITU, A_NEPB, B, 0.5, 2.0, 0.42
GASNATURAL, RED, SUMINISTRO,A, 0.0, 1.1, 0.22
BIOMASA, RED, SUMINISTRO, A, 1.1, 0.1, 0.07
EAMBIENTE, INSITU, SUMINISTRO,  A, 1.0, 0.0, 0.0
EAMBIENTE, RED, SUMINISTRO,  A, 1.0, 0.0, 0.0
TERMOSOLAR, INSITU, SUMINISTRO,  A, 1.0, 0.0, 0.0
TERMOSOLAR, RED, SUMINISTRO,  A, 1.0, 0.0, 0.0
";

pub struct FSets {
    pub reg: Vec<(String, Factors)>,
    pub skew: Factors,
    pub skew_cogen: Factors,
    pub raw_j: Factors,
}

pub fn fsets() -> &'static FSets {
    static S: OnceLock<FSets> = OnceLock::new();
    S.get_or_init(|| FSets {
        reg: LOCS.iter().map(|l| (l.to_string(), reg(l))).collect(),
        skew: from_text(&skew_text(false)).expect("skew factors"),
        skew_cogen: from_text(&skew_text(true)).expect("skew+cogen factors"),
        raw_j: from_text(RAW_J).expect("raw J factors"),
    })
}

/// the un-normalized factor set the repository's ISO/TR 52000-2 tests use
pub fn raw_j() -> &'static Factors {
    static S: OnceLock<Factors> = OnceLock::new();
    S.get_or_init(|| RAW_J.parse::<Factors>().expect("raw J"))
}

/// Named factor set
pub fn fset(name: &str) -> &'static Factors {
    let s = fsets();
    match name {
        "SKEW" => &s.skew,
        "SKEW+COGEN" => &s.skew_cogen,
        "RAW_J" => &s.raw_j,
        "RAW_J(unprepared)" => raw_j(),
        loc => &s.reg.iter().find(|(l, _)| l == loc).unwrap_or_else(|| panic!("unknown factor set {loc}")).1,
    }
}

/// magnitude budget of a building: Σ|values| × max(1, max|factor|)
pub fn magnitude(c: &Components, f: &Factors) -> f64 {
    let s: f64 = c.data.iter().map(|e| e.values().iter().map(|v| v.abs() as f64).sum::<f64>()).sum();
    let needs: f64 = [&c.needs.ACS, &c.needs.CAL, &c.needs.REF].iter().filter_map(|n| n.as_ref()).map(|v| v.iter().map(|x| x.abs() as f64).sum::<f64>()).sum();
    let fm = f.wdata.iter().map(|w| w.ren.abs().max(w.nren.abs()).max(w.co2.abs()) as f64).fold(1.0, f64::max);
    (s + needs) * fm
}

/// absolute tolerance for energies of a building of magnitude `mag`
pub fn tol(mag: f64) -> f64 {
    2e-5 * mag + 1e-6
}

pub fn close(a: f64, b: f64, t: f64) -> bool {
    (a - b).abs() <= t || (a.is_nan() && b.is_nan()) || (a == b)
}

/// shipped example files (name, text), read from the CURRENT working tree of /repo
pub fn shipped_components() -> Vec<(String, String)> {
    let mut out = vec![];
    for dir in ["/repo/test_data", "/repo/test_data/extra"] {
        let Ok(rd) = std::fs::read_dir(dir) else { continue };
        let mut names: Vec<_> = rd.filter_map(|e| e.ok()).map(|e| e.path()).filter(|p| p.extension().map(|x| x == "csv").unwrap_or(false)).collect();
        names.sort();
        for p in names {
            let name = p.file_name().unwrap().to_string_lossy().to_string();
            if name.starts_with("factores_paso") {
                continue;
            }
            if let Ok(t) = std::fs::read_to_string(&p) {
                out.push((name, t));
            }
        }
    }
    out
}

pub fn shipped_factor_files() -> Vec<(String, String)> {
    let mut out = vec![];
    if let Ok(rd) = std::fs::read_dir("/repo/test_data") {
        let mut names: Vec<_> = rd.filter_map(|e| e.ok()).map(|e| e.path()).collect();
        names.sort();
        for p in names {
            let name = p.file_name().unwrap().to_string_lossy().to_string();
            if name.starts_with("factores_paso") {
                if let Ok(t) = std::fs::read_to_string(&p) {
                    out.push((name, t));
                }
            }
        }
    }
    out
}
