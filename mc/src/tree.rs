//! Generic result walker (DESIGN.md §3.2): parses `{:?}` output of the subject's result structs into
//! a tree, so that "every field" checks need no hand-written field list.

use std::collections::BTreeMap;

#[derive(Debug, Clone, PartialEq)]
pub enum Leaf {
    /// a float, widened from the f32 that `Debug` printed (exact)
    Num(f64),
    Int(i64),
    Str(String),
    Ident(String),
}

impl Leaf {
    pub fn num(&self) -> Option<f64> {
        match self {
            Leaf::Num(x) => Some(*x),
            Leaf::Int(i) => Some(*i as f64),
            _ => None,
        }
    }
}

#[derive(Debug, Clone, PartialEq)]
pub enum Node {
    Leaf(Leaf),
    /// struct fields or map entries (keys rendered as text, sorted)
    Map(BTreeMap<String, Node>),
    List(Vec<Node>),
}

struct P<'a> {
    s: &'a [u8],
    i: usize,
}

impl<'a> P<'a> {
    fn ws(&mut self) {
        while self.i < self.s.len() && (self.s[self.i] as char).is_whitespace() {
            self.i += 1;
        }
    }
    fn peek(&mut self) -> Option<u8> {
        self.ws();
        self.s.get(self.i).copied()
    }
    fn eat(&mut self, c: u8) -> bool {
        if self.peek() == Some(c) {
            self.i += 1;
            true
        } else {
            false
        }
    }
    fn expect(&mut self, c: u8) -> Result<(), String> {
        if self.eat(c) {
            Ok(())
        } else {
            Err(format!(
                "expected '{}' at {} near {:?}",
                c as char,
                self.i,
                String::from_utf8_lossy(&self.s[self.i.saturating_sub(20)..(self.i + 20).min(self.s.len())])
            ))
        }
    }
    fn string(&mut self) -> Result<String, String> {
        // at opening quote
        self.i += 1;
        let mut out = Vec::new();
        while self.i < self.s.len() {
            let c = self.s[self.i];
            self.i += 1;
            match c {
                b'"' => return String::from_utf8(out).map_err(|e| e.to_string()),
                b'\\' => {
                    let e = self.s[self.i];
                    self.i += 1;
                    match e {
                        b'n' => out.push(b'\n'),
                        b't' => out.push(b'\t'),
                        b'r' => out.push(b'\r'),
                        b'0' => out.push(0),
                        b'\\' => out.push(b'\\'),
                        b'"' => out.push(b'"'),
                        b'\'' => out.push(b'\''),
                        b'u' => {
                            // \u{XXXX}
                            self.i += 1; // {
                            let st = self.i;
                            while self.s[self.i] != b'}' {
                                self.i += 1;
                            }
                            let hex = std::str::from_utf8(&self.s[st..self.i]).unwrap();
                            self.i += 1;
                            let ch = char::from_u32(u32::from_str_radix(hex, 16).map_err(|e| e.to_string())?)
                                .ok_or("bad char")?;
                            let mut b = [0u8; 4];
                            out.extend_from_slice(ch.encode_utf8(&mut b).as_bytes());
                        }
                        o => return Err(format!("unknown escape \\{}", o as char)),
                    }
                }
                c => out.push(c),
            }
        }
        Err("unterminated string".into())
    }
    fn token(&mut self) -> String {
        self.ws();
        let st = self.i;
        while self.i < self.s.len() {
            let c = self.s[self.i];
            if c.is_ascii_alphanumeric() || c == b'_' || c == b'.' || c == b'-' || c == b'+' {
                self.i += 1;
            } else {
                break;
            }
        }
        String::from_utf8_lossy(&self.s[st..self.i]).into_owned()
    }

    fn key_text(n: &Node) -> String {
        match n {
            Node::Leaf(Leaf::Ident(s)) | Node::Leaf(Leaf::Str(s)) => s.clone(),
            Node::Leaf(Leaf::Int(i)) => i.to_string(),
            Node::Leaf(Leaf::Num(x)) => format!("{x}"),
            other => format!("{other:?}"),
        }
    }

    fn value(&mut self) -> Result<Node, String> {
        match self.peek() {
            None => Err("eof".into()),
            Some(b'"') => Ok(Node::Leaf(Leaf::Str(self.string()?))),
            Some(b'[') => {
                self.i += 1;
                let mut v = Vec::new();
                loop {
                    if self.eat(b']') {
                        break;
                    }
                    v.push(self.value()?);
                    if !self.eat(b',') {
                        self.expect(b']')?;
                        break;
                    }
                }
                Ok(Node::List(v))
            }
            Some(b'{') => {
                // map {k: v, ..} or set {a, b}
                self.i += 1;
                let mut m = BTreeMap::new();
                loop {
                    if self.eat(b'}') {
                        break;
                    }
                    let k = self.value()?;
                    if self.eat(b':') {
                        let v = self.value()?;
                        m.insert(Self::key_text(&k), v);
                    } else {
                        m.insert(Self::key_text(&k), Node::Leaf(Leaf::Ident("()".into())));
                    }
                    if !self.eat(b',') {
                        self.expect(b'}')?;
                        break;
                    }
                }
                Ok(Node::Map(m))
            }
            Some(b'(') => {
                // bare tuple
                self.i += 1;
                let mut v = Vec::new();
                loop {
                    if self.eat(b')') {
                        break;
                    }
                    v.push(self.value()?);
                    if !self.eat(b',') {
                        self.expect(b')')?;
                        break;
                    }
                }
                Ok(Node::List(v))
            }
            Some(_) => {
                let t = self.token();
                if t.is_empty() {
                    return Err(format!("unexpected char at {}", self.i));
                }
                let first = t.as_bytes()[0];
                if first.is_ascii_digit() || first == b'-' || first == b'+' || t == "inf" || t == "NaN" {
                    if t.contains('.') || t.contains('e') || t.contains("inf") || t.contains("NaN") {
                        let x: f32 = t.parse().map_err(|_| format!("bad float {t}"))?;
                        return Ok(Node::Leaf(Leaf::Num(x as f64)));
                    }
                    if let Ok(i) = t.parse::<i64>() {
                        return Ok(Node::Leaf(Leaf::Int(i)));
                    }
                    return Err(format!("bad number {t}"));
                }
                // identifier: struct, tuple struct / enum variant, or unit
                match self.peek() {
                    Some(b'{') => {
                        self.i += 1;
                        let mut m = BTreeMap::new();
                        loop {
                            if self.eat(b'}') {
                                break;
                            }
                            let k = self.token();
                            self.expect(b':')?;
                            let v = self.value()?;
                            m.insert(k, v);
                            if !self.eat(b',') {
                                self.expect(b'}')?;
                                break;
                            }
                        }
                        Ok(Node::Map(m))
                    }
                    Some(b'(') => {
                        self.i += 1;
                        let mut v = Vec::new();
                        loop {
                            if self.eat(b')') {
                                break;
                            }
                            v.push(self.value()?);
                            if !self.eat(b',') {
                                self.expect(b')')?;
                                break;
                            }
                        }
                        // Some(x), MiscMap(x), Used(EUsed{..}): transparent when single
                        if v.len() == 1 {
                            let inner = v.pop().unwrap();
                            if t == "Some" || t == "MiscMap" {
                                Ok(inner)
                            } else {
                                let mut m = BTreeMap::new();
                                m.insert(t, inner);
                                Ok(Node::Map(m))
                            }
                        } else {
                            Ok(Node::List(v))
                        }
                    }
                    _ => Ok(Node::Leaf(Leaf::Ident(t))),
                }
            }
        }
    }
}

pub fn parse(s: &str) -> Result<Node, String> {
    let mut p = P { s: s.as_bytes(), i: 0 };
    let n = p.value()?;
    p.ws();
    if p.i != p.s.len() {
        return Err(format!("trailing input at {}", p.i));
    }
    Ok(n)
}

/// Flatten into `path -> leaf`. `None` idents are dropped (absent optional).
pub fn flatten(n: &Node, prefix: &str, out: &mut Flat) {
    match n {
        Node::Leaf(Leaf::Ident(s)) if s == "None" => {}
        Node::Leaf(l) => {
            out.insert(prefix.to_string(), l.clone());
        }
        Node::Map(m) => {
            for (k, v) in m {
                let p = if prefix.is_empty() { k.clone() } else { format!("{prefix}.{k}") };
                flatten(v, &p, out);
            }
        }
        Node::List(v) => {
            for (i, x) in v.iter().enumerate() {
                flatten(x, &format!("{prefix}[{i}]"), out);
            }
        }
    }
}

/// Deterministic, allocation-light hasher for the flat map (does not consume std RandomState keys)
#[derive(Default, Clone, Copy)]
pub struct Fx(u64);
impl std::hash::Hasher for Fx {
    fn finish(&self) -> u64 {
        self.0
    }
    fn write(&mut self, bytes: &[u8]) {
        let mut h = self.0;
        let mut ch = bytes.chunks_exact(8);
        for c in &mut ch {
            let w = u64::from_le_bytes(c.try_into().unwrap());
            h = (h.rotate_left(5) ^ w).wrapping_mul(0x517cc1b727220a95);
        }
        for b in ch.remainder() {
            h = (h.rotate_left(5) ^ *b as u64).wrapping_mul(0x517cc1b727220a95);
        }
        self.0 = h;
    }
}
pub type FxBuild = std::hash::BuildHasherDefault<Fx>;

/// path -> leaf
pub type Flat = std::collections::HashMap<String, Leaf, FxBuild>;

// ---------------------------------------------------------------------------------------------------
// Streaming flattener (same grammar, no intermediate tree): ~10x faster than parse + flatten.

struct F<'a> {
    s: &'a [u8],
    i: usize,
    path: String,
    out: Vec<(String, Leaf)>,
}

impl<'a> F<'a> {
    #[inline]
    fn ws(&mut self) {
        while self.i < self.s.len() && matches!(self.s[self.i], b' ' | b'\n' | b'\t' | b'\r') {
            self.i += 1;
        }
    }
    #[inline]
    fn peek(&mut self) -> u8 {
        self.ws();
        if self.i < self.s.len() {
            self.s[self.i]
        } else {
            0
        }
    }
    #[inline]
    fn eat(&mut self, c: u8) -> bool {
        if self.peek() == c {
            self.i += 1;
            true
        } else {
            false
        }
    }
    fn fail(&self, what: &str) -> ! {
        panic!("result tree parse error: {what} at {} near {:?}", self.i, String::from_utf8_lossy(&self.s[self.i.saturating_sub(30)..(self.i + 30).min(self.s.len())]))
    }
    fn token(&mut self) -> &'a str {
        self.ws();
        let st = self.i;
        while self.i < self.s.len() {
            let c = self.s[self.i];
            if c.is_ascii_alphanumeric() || c == b'_' || c == b'.' || c == b'-' || c == b'+' {
                self.i += 1;
            } else {
                break;
            }
        }
        // SAFETY-free: input is valid UTF-8 and we only cut at ASCII bytes
        std::str::from_utf8(&self.s[st..self.i]).unwrap()
    }
    fn string(&mut self) -> String {
        let mut p = P { s: self.s, i: self.i };
        let r = p.string().unwrap_or_else(|e| self.fail(&e));
        self.i = p.i;
        r
    }
    fn emit(&mut self, l: Leaf) {
        self.out.push((self.path.clone(), l));
    }
    fn seq(&mut self, close: u8) {
        // after the opening bracket
        let base = self.path.len();
        let mut idx = 0usize;
        loop {
            if self.eat(close) {
                break;
            }
            use std::fmt::Write;
            let _ = write!(self.path, "[{idx}]");
            self.value();
            self.path.truncate(base);
            idx += 1;
            if !self.eat(b',') {
                if !self.eat(close) {
                    self.fail("expected close of sequence");
                }
                break;
            }
        }
    }
    fn push_key(&mut self, k: &str) -> usize {
        let base = self.path.len();
        if base > 0 {
            self.path.push('.');
        }
        self.path.push_str(k);
        base
    }
    fn value(&mut self) {
        match self.peek() {
            0 => self.fail("eof"),
            b'"' => {
                let s = self.string();
                self.emit(Leaf::Str(s));
            }
            b'[' => {
                self.i += 1;
                self.seq(b']');
            }
            b'(' => {
                self.i += 1;
                self.seq(b')');
            }
            b'{' => {
                self.i += 1;
                loop {
                    if self.eat(b'}') {
                        break;
                    }
                    // key: identifier, string or number
                    let key: String = if self.peek() == b'"' { self.string() } else { self.token().to_string() };
                    if key.is_empty() {
                        self.fail("empty map key");
                    }
                    let base = self.push_key(&key);
                    if self.eat(b':') {
                        self.value();
                    } else {
                        self.emit(Leaf::Ident("()".into()));
                    }
                    self.path.truncate(base);
                    if !self.eat(b',') {
                        if !self.eat(b'}') {
                            self.fail("expected }");
                        }
                        break;
                    }
                }
            }
            _ => {
                let t = self.token();
                if t.is_empty() {
                    self.fail("unexpected character");
                }
                let first = t.as_bytes()[0];
                if first.is_ascii_digit() || first == b'-' || first == b'+' || t == "inf" || t == "NaN" {
                    if t.contains('.') || t.contains('e') || t.contains("inf") || t.contains("NaN") {
                        let x: f32 = t.parse().unwrap_or_else(|_| self.fail("bad float"));
                        self.emit(Leaf::Num(x as f64));
                    } else {
                        let x: i64 = t.parse().unwrap_or_else(|_| self.fail("bad int"));
                        self.emit(Leaf::Int(x));
                    }
                    return;
                }
                match self.peek() {
                    b'{' => {
                        self.i += 1;
                        loop {
                            if self.eat(b'}') {
                                break;
                            }
                            let k = self.token();
                            if !self.eat(b':') {
                                self.fail("expected : in struct");
                            }
                            let base = self.push_key(k);
                            self.value();
                            self.path.truncate(base);
                            if !self.eat(b',') {
                                if !self.eat(b'}') {
                                    self.fail("expected } of struct");
                                }
                                break;
                            }
                        }
                    }
                    b'(' => {
                        self.i += 1;
                        if t == "Some" || t == "MiscMap" {
                            self.value();
                            self.eat(b',');
                            if !self.eat(b')') {
                                self.fail("expected )");
                            }
                        } else {
                            let base = self.push_key(t);
                            // single-field tuple struct is transparent under its name; several fields are indexed
                            let save = self.i;
                            let before = self.out.len();
                            self.value();
                            if self.eat(b')') {
                                self.path.truncate(base);
                            } else {
                                // more than one field: redo as sequence
                                self.i = save;
                                self.out.truncate(before);
                                self.seq(b')');
                                self.path.truncate(base);
                            }
                        }
                    }
                    _ => {
                        if t != "None" {
                            self.emit(Leaf::Ident(t.to_string()));
                        }
                    }
                }
            }
        }
    }
}

/// Flatten Debug text directly
pub fn flat_str(s: &str) -> Flat {
    let mut f = F { s: s.as_bytes(), i: 0, path: String::with_capacity(96), out: Vec::with_capacity(512) };
    f.value();
    f.ws();
    if f.i != f.s.len() {
        f.fail("trailing input");
    }
    let mut m = Flat::with_capacity_and_hasher(f.out.len() * 2, FxBuild::default());
    m.extend(f.out);
    m
}

/// Result tree of an `EnergyPerformance`: everything except the echoed inputs (components, wfactors).
pub fn result_flat(ep: &cteepbd::types::EnergyPerformance) -> Flat {
    let txt = format!(
        "R {{ balance_cr: {:?}, balance: {:?}, balance_m2: {:?}, rer: {:?}, rer_nrb: {:?}, rer_onst: {:?}, k_exp: {:?}, arearef: {:?}, misc: {:?} }}",
        ep.balance_cr, ep.balance, ep.balance_m2, ep.rer, ep.rer_nrb, ep.rer_onst, ep.k_exp, ep.arearef, ep.misc
    );
    flat_str(&txt)
}

/// Numeric leaves only
pub fn nums(flat: &Flat) -> BTreeMap<String, f64> {
    flat.iter().filter_map(|(k, v)| v.num().map(|x| (k.clone(), x))).collect()
}

#[cfg(test)]
mod tests {
    use super::*;
    #[test]
    fn parses() {
        let n = parse(r#"R { a: {ILU: RenNrenCo2 { ren: 1.5, nren: -2e-7, co2: 0.0 }}, b: [1.0, 2.0], c: Some(3.0), d: None, e: "x\"y", f: 12 }"#).unwrap();
        let mut f = Flat::default();
        flatten(&n, "", &mut f);
        assert_eq!(f["a.ILU.ren"], Leaf::Num(1.5));
        assert_eq!(f["b[1]"], Leaf::Num(2.0));
        assert_eq!(f["c"], Leaf::Num(3.0));
        assert!(!f.contains_key("d"));
        assert_eq!(f["f"], Leaf::Int(12));
        let g = flat_str(r#"R { a: {ILU: RenNrenCo2 { ren: 1.5, nren: -2e-7, co2: 0.0 }}, b: [1.0, 2.0], c: Some(3.0), d: None, e: "x\"y", f: 12 }"#);
        assert_eq!(f, g);
    }
}
