//! C14 More on-site renewable electricity never makes the building look worse.
//! Relation along every edge `s -> s + P(EL_INSITU, delta)` of the state graph: evaluated in the child
//! state against each parent obtained by removing one on-site electricity line.

use cteepbd::types::{Carrier, EnergyPerformance, ProdSource};

use super::{flow_models, strs, FlowSpec};
use crate::core::*;
use crate::model::*;
use crate::subj;

#[derive(Clone, Copy)]
pub struct C14;

const KS: [f32; 3] = [0.0, 0.5, 1.0];

fn is_pv_line(l: &str) -> bool {
    let l = l.trim();
    if l.starts_with('#') {
        return false;
    }
    let body = l.split('#').next().unwrap_or("");
    let toks: Vec<&str> = body.split(',').map(|s| s.trim()).collect();
    toks.iter().any(|t| *t == "PRODUCCION") && toks.iter().any(|t| *t == "EL_INSITU")
}

fn features(parent: &EnergyPerformance, child: &EnergyPerformance) -> Vec<&'static str> {
    let mut f = vec![];
    let g = |e: &EnergyPerformance, s: ProdSource| e.balance_cr.get(&Carrier::ELECTRICIDAD).and_then(|b| b.prod.epus_by_src_an.get(&s).copied()).unwrap_or(0.0);
    if g(child, ProdSource::EL_COGEN) < g(parent, ProdSource::EL_COGEN) - 1e-6 {
        f.push("cogen_selfuse_displaced_by_added_pv");
    }
    // a cogeneration fuel that is mostly renewable by its own weighting factor (biomass, biofuel, a renewable district network)
    let renewable = |c: &Carrier| parent.wfactors.wdata.iter().any(|w| w.carrier == *c && format!("{}", w.source) == "RED" && format!("{}", w.dest) == "SUMINISTRO" && w.ren > w.nren);
    if parent.balance_cr.iter().any(|(c, b)| b.used.cgnus_an > 0.0 && renewable(c)) {
        f.push("chp_on_renewable_fuel");
    }
    f
}

fn compare(parent: &EnergyPerformance, child: &EnergyPerformance, k: f32, cfg: &str, out: &mut Out) {
    let mag = subj::magnitude(&child.components, &child.wfactors);
    let t = subj::tol(mag);
    let feats = features(parent, child);
    out.compared += 1;
    let pairs = [
        ("we.a.nren", parent.balance.we.a.nren, child.balance.we.a.nren),
        ("we.b.nren", parent.balance.we.b.nren, child.balance.we.b.nren),
        ("we.a.co2", parent.balance.we.a.co2, child.balance.we.a.co2),
        ("we.b.co2", parent.balance.we.b.co2, child.balance.we.b.co2),
        ("del.grid", parent.balance.del.grid, child.balance.del.grid),
    ];
    for (n, a, b) in pairs {
        if !(b as f64 <= a as f64 + t) {
            out.viol(&format!("not_increase:{n}"), &feats, cfg, format!("with extra PV {b}"), format!("<= without {a}"));
        }
    }
    if let (Some(pe), Some(ce)) = (parent.balance_cr.get(&Carrier::ELECTRICIDAD), child.balance_cr.get(&Carrier::ELECTRICIDAD)) {
        for i in 0..pe.del.grid_t.len().min(ce.del.grid_t.len()) {
            if !(ce.del.grid_t[i] as f64 <= pe.del.grid_t[i] as f64 + t) {
                out.viol("not_increase:del.grid_t", &feats, cfg, format!("step {i}: with extra PV {}", ce.del.grid_t[i]), format!("<= without {}", pe.del.grid_t[i]));
            }
        }
    }
    if k == 0.0 {
        let pt = parent.balance.we.b.tot() as f64;
        let ct = child.balance.we.b.tot() as f64;
        if pt > 1e-3 * mag && ct > 1e-3 * mag {
            out.nontrivial = true;
            if !(child.rer as f64 >= parent.rer as f64 - (1e-4 + 2.0 * t / pt.min(ct))) {
                out.viol("rer_not_lower", &feats, cfg, format!("with extra PV rer={}", child.rer), format!(">= without rer={}", parent.rer));
            }
            if child.rer > parent.rer {
                out.regime("rer_rises");
            }
        }
    }
    if child.balance.we.b.nren < parent.balance.we.b.nren {
        out.regime("nren_falls");
    }
    if child.balance.exp.an > parent.balance.exp.an {
        out.regime("extra_pv_exported");
    }
    for f in feats {
        out.regime(format!("feature:{f}"));
    }
}

impl StateCheck for C14 {
    fn check(&self, text: &str, _l: &[Line], out: &mut Out) {
        let lines: Vec<&str> = text.lines().collect();
        let pv_idx: Vec<usize> = (0..lines.len()).filter(|i| is_pv_line(lines[*i])).collect();
        if pv_idx.is_empty() {
            return;
        }
        let child = match subj::parse(text) {
            Ok(c) => c,
            Err(_) => {
                out.typed_errors += 1;
                return;
            }
        };
        let mut parents = vec![];
        let mut seen = std::collections::BTreeSet::new();
        for i in &pv_idx {
            if !seen.insert(lines[*i].to_string()) {
                continue;
            }
            let ptxt: String = lines.iter().enumerate().filter(|(j, _)| j != i).map(|(_, l)| format!("{l}\n")).collect();
            match subj::parse(&ptxt) {
                Ok(c) if !c.data.is_empty() => parents.push((lines[*i].to_string(), c)),
                _ => {}
            }
        }
        if parents.is_empty() {
            return;
        }
        for loc in subj::LOCS {
            let f = subj::fset(loc);
            for lm in [false, true] {
                for k in KS {
                    if loc != "PENINSULA" && k == 0.5 {
                        continue;
                    }
                    out.evals += 1;
                    let Ok(ce) = subj::eval(&child, f, k, 1.0, lm) else {
                        out.typed_errors += 1;
                        continue;
                    };
                    for (removed, pc) in &parents {
                        out.evals += 1;
                        let Ok(pe) = subj::eval(pc, f, k, 1.0, lm) else {
                            out.typed_errors += 1;
                            continue;
                        };
                        let cfg = format!("loc={loc} k_exp={k} load_matching={lm} edge=+[{}]", removed.trim());
                        compare(&pe, &ce, k, &cfg, out);
                        // the same edge taken through the library: the PV component is pushed into the building that was read
                        // without it, and the set is normalized again (PENINSULA only: the edge, not the factors, is the point)
                        if loc == "PENINSULA" && k != 0.5 {
                            if let Some(extra) = crate::hist::component_of(removed.trim()) {
                                let mut c2 = pc.clone();
                                if c2.data.iter().all(|c| cteepbd::types::HasValues::values(c).len() == cteepbd::types::HasValues::values(&extra).len()) {
                                    c2.data.push(extra);
                                    if let Ok(c2) = c2.normalize() {
                                        out.evals += 1;
                                        if let Ok(ce2) = subj::eval(&c2, f, k, 1.0, lm) {
                                            out.regime("edge_through_the_library");
                                            compare(&pe, &ce2, k, &format!("{cfg} (pushed into the parsed building, normalize() again)"), out);
                                        }
                                    }
                                }
                            }
                        }
                    }
                }
            }
        }
    }
}

/// GRID: one step, EPB use 100 kWh; base PV on a dense grid of production/use ratios (0 .. 1.2 in steps of
/// 0.01, each also 0.0005 below the grid point, plus 1.5, 2, 3, 10) and increments of 0.1, 1, 10 and 50 kWh:
/// monotonicity must also hold for small steps across every ratio, where thresholds and kinks would sit.
fn grid_slots() -> Vec<Vec<Letter>> {
    let raw = |s: String| Line::Raw(s);
    let ctxs = vec![
        Letter::many(vec![raw("0, CONSUMO, ILU, ELECTRICIDAD, 100".into()), raw("1, CONSUMO, CAL, GASNATURAL, 40".into())]),
        Letter::many(vec![raw("0, CONSUMO, ILU, ELECTRICIDAD, 100".into()), raw("0, CONSUMO, NEPB, ELECTRICIDAD, 20".into())]),
        Letter::many(vec![raw("0, CONSUMO, ILU, ELECTRICIDAD, 60".into()), raw("1, CONSUMO, ACS, ELECTRICIDAD, 40".into()), raw("2, PRODUCCION, EL_COGEN, 30".into()), raw("2, CONSUMO, COGEN, GASNATURAL, 75".into())]),
        // a coal-fired, inefficient cogenerator: its electricity is worse than the grid's, so any growth of its
        // self-use shows as more non-renewable energy and more emissions
        Letter::many(vec![raw("0, CONSUMO, ILU, ELECTRICIDAD, 100".into()), raw("2, PRODUCCION, EL_COGEN, 40".into()), raw("2, CONSUMO, COGEN, CARBON, 110".into())]),
    ];
    let mut bases = vec![];
    for n in 0..=120 {
        bases.push(n as f64);
        if n > 0 {
            bases.push(n as f64 - 0.05);
        }
    }
    bases.extend([150.0, 200.0, 300.0, 1000.0]);
    let base_letters: Vec<Letter> = bases.iter().map(|b| if *b == 0.0 { Letter::many(vec![]) } else { Letter::one(raw(format!("0, PRODUCCION, EL_INSITU, {b}"))) }).collect();
    let incs: Vec<Letter> = [0.1, 1.0, 10.0, 50.0].iter().map(|d| Letter::one(raw(format!("9, PRODUCCION, EL_INSITU, {d}")))).collect();
    vec![ctxs, base_letters, incs]
}

/// FINE GRID: a large use (50 000 kWh) with the base PV on a grid of 10 kWh from 0 to 15 000 kWh (production/use ratios
/// 0 .. 0.3 in steps of 0.0002) and increments of 2 and 10 kWh: a kink of the matching factor at a small ratio x0 lowers the
/// used production by about x0^2 * use, which only an increment smaller than that can show (x0 >= 0.01 here). And the mirror
/// image: a small use (100 kWh) under PV of 1 .. 120 times the use.
fn fine_grid_slots(low: bool) -> Vec<Vec<Letter>> {
    let raw = |s: String| Line::Raw(s);
    if low {
        let ctxs = vec![
            Letter::many(vec![raw("0, CONSUMO, ILU, ELECTRICIDAD, 50000".into())]),
            Letter::many(vec![raw("0, CONSUMO, ILU, ELECTRICIDAD, 50000".into()), raw("0, CONSUMO, NEPB, ELECTRICIDAD, 700".into())]),
        ];
        let bases: Vec<Letter> = (0..=1500).map(|j| if j == 0 { Letter::many(vec![]) } else { Letter::one(raw(format!("0, PRODUCCION, EL_INSITU, {}", j * 10))) }).collect();
        let incs: Vec<Letter> = [2, 10].iter().map(|d| Letter::one(raw(format!("9, PRODUCCION, EL_INSITU, {d}")))).collect();
        vec![ctxs, bases, incs]
    } else {
        let ctxs = vec![
            Letter::many(vec![raw("0, CONSUMO, ILU, ELECTRICIDAD, 100".into())]),
            Letter::many(vec![raw("0, CONSUMO, ILU, ELECTRICIDAD, 100".into()), raw("0, CONSUMO, NEPB, ELECTRICIDAD, 3000".into())]),
        ];
        let bases: Vec<Letter> = (2..=240).map(|j| Letter::one(raw(format!("0, PRODUCCION, EL_INSITU, {}", j * 50)))).collect();
        let incs: Vec<Letter> = [5, 50].iter().map(|d| Letter::one(raw(format!("9, PRODUCCION, EL_INSITU, {d}")))).collect();
        vec![ctxs, bases, incs]
    }
}

pub fn run(ctx: &Ctx) -> i32 {
    let shared = Shared::new("C14", ctx);
    explore(ctx, "FINE GRID: use 50 000 kWh, PV 0 .. 15 000 kWh in steps of 10 kWh, increments of 2 and 10 kWh", Layered { slots: fine_grid_slots(true), bases: crate::alpha::bases(false) }, C14, shared.clone());
    explore(ctx, "FINE GRID (mirror): use 100 kWh, PV 100 .. 12 000 kWh in steps of 50 kWh, increments of 5 and 50 kWh", Layered { slots: fine_grid_slots(false), bases: crate::alpha::bases(false) }, C14, shared.clone());
    explore(ctx, "GRID: dense grid of production/use ratios x small increments x 4 contexts", Layered { slots: grid_slots(), bases: crate::alpha::bases(false) }, C14, shared.clone());
    flow_models(ctx, &shared, C14, FlowSpec { quick_depth: 3, thorough_depth: 4, extra: vec![], deep: true, heavy_oracle: false, seeded: true, t3: true, valuesets: false });
    finish(
        ctx,
        &shared,
        &C14,
        Finish {
            level: "model_checking",
            rule: "every edge s -> s + PRODUCCION EL_INSITU line of the FLOW state graph (child evaluated against each parent obtained by removing one on-site line; increments: every non-zero vector of the alphabet) x 4 locations x k_exp {0,0.5,1} x load matching; non-trivial = RER compared (both totals above noise)".into(),
            assumptions: strs(&["increments are whole added lines (same source lines add up)", "RER compared with 1e-4 slack and only when both totals exceed 1e-3*magnitude"]),
            required_regimes: strs(&["rer_rises", "nren_falls", "extra_pv_exported", "feature:cogen_selfuse_displaced_by_added_pv"]),
            extra: serde_json::json!({}),
        },
    )
}

pub fn replay(path: &str) -> i32 {
    replay_file("C14", &C14, path)
}
