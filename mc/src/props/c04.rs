//! C04 Totals equal the sum of their breakdowns; per-m2 values equal totals / area.

use std::collections::BTreeMap;

use cteepbd::types::{EnergyPerformance, RenNrenCo2};

use super::{flow_models, strs, FlowSpec};
use crate::cmp::{cmp_flat, show};
use crate::core::*;
use crate::model::*;
use crate::subj::{self, close};
use crate::tree::{self, Flat};

#[derive(Clone, Copy)]
pub struct C04;

const AREAS: [f32; 5] = [0.001, 0.5, 1.0, 4.0, 200.0];

fn flat_of<T: std::fmt::Debug>(x: &T) -> Flat {
    tree::flat_str(&format!("{x:?}"))
}

fn add3(m: &mut BTreeMap<String, f64>, p: &str, x: &RenNrenCo2) {
    *m.entry(format!("{p}.ren")).or_default() += x.ren as f64;
    *m.entry(format!("{p}.nren")).or_default() += x.nren as f64;
    *m.entry(format!("{p}.co2")).or_default() += x.co2 as f64;
}

/// expected whole-building figures = sums of the per-carrier figures (name map of DESIGN.md §C04 b)
fn expected_totals(ep: &EnergyPerformance) -> (BTreeMap<String, f64>, BTreeMap<String, f64>) {
    let mut m: BTreeMap<String, f64> = BTreeMap::new();
    // entries that are only present when non-zero
    let mut opt: BTreeMap<String, f64> = BTreeMap::new();
    for k in ["used.epus", "used.nepus", "used.cgnus", "prod.an", "del.an", "del.onst", "del.grid", "exp.an", "exp.grid", "exp.nepus"] {
        m.insert(k.to_string(), 0.0);
    }
    for p in ["we.a", "we.b", "we.del", "we.exp_a", "we.exp"] {
        add3(&mut m, p, &RenNrenCo2::default());
    }
    for (cr, b) in &ep.balance_cr {
        *m.get_mut("used.epus").unwrap() += b.used.epus_an as f64;
        *m.get_mut("used.nepus").unwrap() += b.used.nepus_an as f64;
        *m.get_mut("used.cgnus").unwrap() += b.used.cgnus_an as f64;
        *m.get_mut("prod.an").unwrap() += b.prod.an as f64;
        *m.get_mut("del.an").unwrap() += b.del.an as f64;
        *m.get_mut("del.onst").unwrap() += b.del.onst_an as f64;
        *m.get_mut("del.grid").unwrap() += b.del.grid_an as f64;
        *m.get_mut("exp.an").unwrap() += b.exp.an as f64;
        *m.get_mut("exp.grid").unwrap() += b.exp.grid_an as f64;
        *m.get_mut("exp.nepus").unwrap() += b.exp.nepus_an as f64;
        add3(&mut m, "we.a", &b.we.a);
        add3(&mut m, "we.b", &b.we.b);
        add3(&mut m, "we.del", &b.we.del);
        add3(&mut m, "we.exp_a", &b.we.exp_a);
        add3(&mut m, "we.exp", &b.we.exp);
        for (srv, v) in &b.used.epus_by_srv_an {
            *m.entry(format!("used.epus_by_srv.{srv}")).or_default() += *v as f64;
            *m.entry(format!("used.epus_by_cr_by_srv.{srv}.{cr}")).or_default() += *v as f64;
        }
        for (srv, v) in &b.we.a_by_srv {
            add3(&mut m, &format!("we.a_by_srv.{srv}"), v);
        }
        for (srv, v) in &b.we.b_by_srv {
            add3(&mut m, &format!("we.b_by_srv.{srv}"), v);
        }
        for (src, v) in &b.prod.by_src_an {
            *m.entry(format!("prod.by_src.{src}")).or_default() += *v as f64;
        }
        for (src, v) in &b.prod.epus_by_src_an {
            *m.entry(format!("prod.epus_by_src.{src}")).or_default() += *v as f64;
        }
        for (src, bysrv) in &b.prod.epus_by_srv_by_src_an {
            for (srv, v) in bysrv {
                *m.entry(format!("prod.epus_by_srv_by_src.{src}.{srv}")).or_default() += *v as f64;
            }
        }
        *opt.entry(format!("used.epus_by_cr.{cr}")).or_default() += b.used.epus_an as f64;
        *opt.entry(format!("prod.by_cr.{cr}")).or_default() += b.prod.an as f64;
        *opt.entry(format!("del.grid_by_cr.{cr}")).or_default() += b.del.grid_an as f64;
    }
    (m, opt)
}

fn sum_prefix(f: &Flat, prefix: &str) -> f64 {
    f.iter().filter(|(k, _)| k.starts_with(prefix)).filter_map(|(_, v)| v.num()).sum()
}

fn sum_prefix_suffix(f: &Flat, prefix: &str, suffix: &str) -> f64 {
    f.iter().filter(|(k, _)| k.starts_with(prefix) && k.ends_with(suffix)).filter_map(|(_, v)| v.num()).sum()
}

pub fn check_ep(ep: &EnergyPerformance, cfg: &str, out: &mut Out) -> Flat {
    let mag = subj::magnitude(&ep.components, &ep.wfactors);
    let t = subj::tol(mag);
    let bal = flat_of(&ep.balance);
    let m2 = flat_of(&ep.balance_m2);
    let area = ep.arearef as f64;

    // (a) per-m2 = total / area for every numeric leaf
    out.compared += 1;
    let d = cmp_flat(&bal, &m2, 1e-30, 4e-6, &|_| false, &|_, x| x / area);
    if !d.is_empty() {
        let (a, b) = show(&d);
        out.viol("per_m2_eq_total_over_area", &[], cfg, format!("balance_m2: {b}"), format!("balance/area: {a}"));
    }

    // (b) whole building = sum over carriers, through the name map
    let (exp, opt) = expected_totals(ep);
    let mut uncovered = 0;
    for (p, l) in &bal {
        let Some(x) = l.num() else { continue };
        out.compared += 1;
        if p.starts_with("needs.") {
            uncovered += 1;
            continue;
        }
        let e = exp.get(p).or_else(|| opt.get(p));
        match e {
            Some(e) => {
                if !close(x, *e, t) {
                    out.viol("total_eq_sum_of_carriers", &[], cfg, format!("balance.{p} = {x}"), format!("sum over balance_cr = {e}"));
                }
            }
            None => out.viol("total_without_carrier_counterpart", &[], cfg, format!("balance.{p} = {x}"), "a per-carrier figure it sums"),
        }
    }
    let _ = uncovered;
    for (p, e) in &exp {
        if !bal.contains_key(p) && e.abs() > t {
            out.viol("total_missing", &[], cfg, format!("balance.{p} absent"), format!("sum over balance_cr = {e}"));
        }
    }
    for (p, e) in &opt {
        if !bal.contains_key(p) && e.abs() > t {
            out.viol("total_missing", &[], cfg, format!("balance.{p} absent"), format!("per-carrier figure = {e}"));
        }
    }

    // (c) breakdown identities of the statement, on the reported totals
    let g = |p: &str| bal.get(p).and_then(|l| l.num()).unwrap_or(0.0);
    let mut ident = |name: &str, a: f64, b: f64, out: &mut Out| {
        out.compared += 1;
        if !close(a, b, t) {
            out.viol(&format!("breakdown:{name}"), &[], cfg, format!("{a}"), format!("{b}"));
        }
    };
    ident("epus_by_srv", sum_prefix(&bal, "used.epus_by_srv."), g("used.epus"), out);
    ident("epus_by_cr", sum_prefix(&bal, "used.epus_by_cr."), g("used.epus"), out);
    ident("epus_by_cr_by_srv", sum_prefix(&bal, "used.epus_by_cr_by_srv."), g("used.epus"), out);
    ident("prod_by_src", sum_prefix(&bal, "prod.by_src."), g("prod.an"), out);
    ident("prod_by_cr", sum_prefix(&bal, "prod.by_cr."), g("prod.an"), out);
    ident("del=grid+onst+cgnus", g("del.grid") + g("del.onst") + g("used.cgnus"), g("del.an"), out);
    ident("exp=grid+nepus", g("exp.grid") + g("exp.nepus"), g("exp.an"), out);
    // produced-and-used by source and by service
    let srcs: Vec<String> = bal.keys().filter_map(|k| k.strip_prefix("prod.epus_by_src.").map(String::from)).collect();
    for s in &srcs {
        // steps without EPB use have no service share but also nothing used
        ident(&format!("epus_by_srv_by_src:{s}"), sum_prefix(&bal, &format!("prod.epus_by_srv_by_src.{s}.")), g(&format!("prod.epus_by_src.{s}")), out);
    }
    let total_epus_by_src = sum_prefix(&bal, "prod.epus_by_src.");
    let total_epus_cr: f64 = ep.balance_cr.values().map(|b| b.prod.epus_an as f64).sum();
    ident("epus_by_src_total", total_epus_by_src, total_epus_cr, out);
    // weighted energy by service, for carriers that have EPB use
    for (comp, idx) in [("ren", 0), ("nren", 1), ("co2", 2)] {
        let pick = |x: &RenNrenCo2| [x.ren, x.nren, x.co2][idx] as f64;
        let a_cr: f64 = ep.balance_cr.values().filter(|b| b.used.epus_an > 0.0).map(|b| pick(&b.we.a)).sum();
        let b_cr: f64 = ep.balance_cr.values().filter(|b| b.used.epus_an > 0.0).map(|b| pick(&b.we.b)).sum();
        ident(&format!("we.a_by_srv.{comp}"), sum_prefix_suffix(&bal, "we.a_by_srv.", &format!(".{comp}")), a_cr, out);
        ident(&format!("we.b_by_srv.{comp}"), sum_prefix_suffix(&bal, "we.b_by_srv.", &format!(".{comp}")), b_cr, out);
    }
    bal
}

impl StateCheck for C04 {
    fn check(&self, text: &str, _l: &[Line], out: &mut Out) {
        let comps = match subj::parse(text) {
            Ok(c) => c,
            Err(_) => {
                out.typed_errors += 1;
                return;
            }
        };
        if comps.data.is_empty() {
            return;
        }
        for (fs, k, lm) in [("PENINSULA", 0.0f32, false), ("SKEW+COGEN", 0.5, true), ("SKEW", 0.5, false)] {
            let f = subj::fset(fs);
            let mut reference: Option<(Flat, EnergyPerformance)> = None;
            for area in AREAS {
                if fs != "PENINSULA" && (area == 0.5 || area == 200.0) {
                    continue;
                }
                let cfg = format!("factors={fs} k_exp={k} load_matching={lm} area={area}");
                out.evals += 1;
                let ep = match subj::eval(&comps, f, k, area, lm) {
                    Ok(e) => e,
                    Err(_) => {
                        out.typed_errors += 1;
                        if reference.is_some() {
                            out.viol("error_depends_on_area", &[], &cfg, "Err", "Ok as for the other areas");
                        }
                        continue;
                    }
                };
                let bal = check_ep(&ep, &cfg, out);
                let ncr = ep.balance_cr.len();
                let nsrv = ep.balance.used.epus_by_srv.len();
                if ncr >= 3 && nsrv >= 2 {
                    out.nontrivial = true;
                    out.regime("carriers>=3,services>=2");
                }
                if ep.balance_cr.values().any(|b| b.prod.an > 0.0 && b.used.epus_an == 0.0) {
                    out.regime("producing_carrier_without_epb_use");
                }
                if ep.balance_cr.values().any(|b| b.used.epus_an == 0.0 && b.used.cgnus_an > 0.0) {
                    out.regime("fuel_only_carrier");
                }
                if ep.arearef != area {
                    out.viol("area_echo", &[], &cfg, format!("{}", ep.arearef), format!("{area}"));
                }
                // area leaves everything but balance_m2 alone
                match &reference {
                    None => reference = Some((bal, ep)),
                    Some((rbal, rep)) => {
                        let mag = subj::magnitude(&comps, f);
                        let d = cmp_flat(rbal, &bal, subj::tol(mag) * 0.05, 2e-6, &|_| false, &|_, x| x);
                        let rt = 1e-4 + 2.0 * subj::tol(mag) / (rep.balance.we.b.tot().abs() as f64).max(1e-30);
                        out.compared += 1;
                        if !d.is_empty() {
                            let (a, b) = show(&d);
                            out.viol("area_changes_absolute_results", &[], &cfg, b, a);
                        }
                        let ratios = crate::cmp::ratios_ok(rep, mag) && crate::cmp::ratios_ok(&ep, mag);
                        for (n, a, b) in [("rer", rep.rer, ep.rer), ("rer_nrb", rep.rer_nrb, ep.rer_nrb), ("rer_onst", rep.rer_onst, ep.rer_onst), ("k_exp", rep.k_exp, ep.k_exp)] {
                            if n != "k_exp" && !ratios {
                                continue;
                            }
                            if !close(a as f64, b as f64, (if n == "k_exp" { 1e-6 } else { rt }) * (a.abs() as f64).max(1.0)) {
                                out.viol("area_changes_ratio", &[], &cfg, format!("{n}={b}"), format!("{a}"));
                            }
                        }
                        if format!("{:?}", rep.components.data) != format!("{:?}", ep.components.data) {
                            out.viol("area_changes_inputs", &[], &cfg, "components differ", "identical components");
                        }
                    }
                }
            }
        }
    }
}

pub fn run(ctx: &Ctx) -> i32 {
    let shared = Shared::new("C04", ctx);
    flow_models(ctx, &shared, C04, FlowSpec { quick_depth: 3, thorough_depth: 4, extra: vec![], deep: true, heavy_oracle: false, seeded: true, t3: false, valuesets: true });
    finish(
        ctx,
        &shared,
        &C04,
        Finish {
            level: "model_checking",
            rule: "every FLOW state x 3 (factors,k,load matching) x areas {0.001,0.5,1,4,200}; every numeric leaf of balance/balance_m2 walked generically; non-trivial = >=3 carriers and >=2 services".into(),
            assumptions: strs(&[
                "per-m2 compared with relative tolerance 4e-6 (one f32 multiplication by 1/area)",
                "sums compared with 2e-5*magnitude+1e-6",
                "leaves of balance.needs have no per-carrier counterpart and are only covered by the per-m2 clause",
            ]),
            required_regimes: strs(&["carriers>=3,services>=2", "producing_carrier_without_epb_use", "fuel_only_carrier"]),
            extra: serde_json::json!({"areas": AREAS}),
        },
    )
}

pub fn replay(path: &str) -> i32 {
    replay_file("C04", &C04, path)
}
