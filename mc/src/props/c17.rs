//! C17 Every output format is well formed and reports the computed result.

use std::collections::BTreeMap;
use std::time::Duration;

use cteepbd::types::{EnergyPerformance, HasValues, RenNrenCo2};
use cteepbd::{cte, AsCtePlain, AsCteXml};

use super::strs;
use crate::alpha::{self, Rich};
use crate::cli;
use crate::core::*;
use crate::model::*;
use crate::subj;
use crate::tree::result_flat;
use crate::xmlcheck;

#[derive(Clone, Copy)]
pub struct C17 {
    pub cli: bool,
}

fn num_after<'a>(line: &'a str, label: &str) -> Option<f64> {
    let i = line.find(label)? + label.len();
    let rest = line[i..].trim_start();
    let end = rest.find(|c: char| !(c.is_ascii_digit() || c == '.' || c == '-' || c == 'e' || c == 'N' || c == 'a' || c == 'i' || c == 'n' || c == 'f')).unwrap_or(rest.len());
    rest[..end].parse().ok()
}

struct Plain {
    scalars: BTreeMap<String, f64>,
    /// blocks of "- key: ..." lines, in order of appearance
    tables: Vec<Vec<(String, String)>>,
    demands: BTreeMap<String, String>,
}

fn parse_plain(txt: &str) -> Result<Plain, String> {
    let mut p = Plain { scalars: BTreeMap::new(), tables: vec![], demands: BTreeMap::new() };
    let lines: Vec<&str> = txt.lines().collect();
    let mut i = 0;
    let scalar_labels = [
        ("Area_ref = ", "arearef"),
        ("k_exp = ", "k_exp"),
        ("E_CO2 [kg_CO2e/m2.an]: ", "co2"),
        ("RER = ", "rer"),
        ("RER_nrb = ", "rer_nrb"),
        ("Energía consumida: ", "used"),
        ("+ Consumida en usos EPB: ", "epus"),
        ("+ Consumida en usos no EPB: ", "nepus"),
        ("+ Consumida en cogeneración: ", "cgnus"),
        ("Generada: ", "prod"),
        ("Suministrada ", "del"),
        ("- de red: ", "del_grid"),
        ("- in situ: ", "del_onst"),
        ("Exportada: ", "exp"),
        ("- a la red: ", "exp_grid"),
        ("- a usos no EPB: ", "exp_nepus"),
        ("Porcentaje renovable de la demanda de ACS (perímetro próximo): ", "pct_acs"),
    ];
    while i < lines.len() {
        let l = lines[i];
        if l.starts_with("C_ep [kWh/m2.an]:") {
            for (lab, k) in [("ren = ", "cep_ren"), ("nren = ", "cep_nren"), ("tot = ", "cep_tot")] {
                // "nren = " contains "ren = ": search from the right position
                let v = if k == "cep_ren" { num_after(l, ": ren = ") } else { num_after(l, lab) };
                p.scalars.insert(k.into(), v.ok_or(format!("no number after {lab} in `{l}`"))?);
            }
        } else if l.starts_with("Recursos utilizados (paso A):") || l.starts_with("Incluyendo el efecto de la energía exportada (paso B):") {
            let pre = if l.starts_with("Recursos") { "a" } else { "b" };
            for (lab, k) in [(": ren ", "ren"), (", nren ", "nren"), ("tot: ", "tot"), ("co2: ", "co2")] {
                p.scalars.insert(format!("{pre}_{k}"), num_after(l, lab).ok_or(format!("no number after {lab} in `{l}`"))?);
            }
        } else if l.starts_with("* ") {
            let mut t = vec![];
            let mut j = i + 1;
            while j < lines.len() && lines[j].starts_with("- ") {
                let body = &lines[j][2..];
                let (k, v) = body.split_once(": ").ok_or(format!("bad table line `{}`", lines[j]))?;
                t.push((k.to_string(), v.to_string()));
                j += 1;
            }
            p.tables.push(t);
            i = j;
            continue;
        } else if l.starts_with("- ACS: ") || l.starts_with("- CAL: ") || l.starts_with("- REF: ") {
            p.demands.insert(l[2..5].to_string(), l[7..].trim().to_string());
        } else {
            for (lab, k) in scalar_labels {
                if l.starts_with(lab) {
                    if let Some(v) = num_after(l, lab) {
                        p.scalars.insert(k.into(), v);
                    } else if k != "pct_acs" {
                        return Err(format!("no number after `{lab}` in `{l}`"));
                    }
                }
            }
        }
        i += 1;
    }
    Ok(p)
}

fn near(printed: f64, actual: f64, decimals: i32) -> bool {
    if actual.is_nan() {
        return printed.is_nan();
    }
    (printed - actual).abs() <= 0.5 * 10f64.powi(-decimals) * 1.001 + 1e-7 * actual.abs()
}

fn check_plain(ep: &EnergyPerformance, txt: &str, cfg: &str, out: &mut Out) -> Option<Plain> {
    let p = match parse_plain(txt) {
        Ok(p) => p,
        Err(e) => {
            out.viol("plain_report_readable", &[], cfg, e, "labelled numbers");
            return None;
        }
    };
    let b = &ep.balance_m2;
    let exp: Vec<(&str, f64, i32)> = vec![
        ("arearef", ep.arearef as f64, 2),
        ("k_exp", ep.k_exp as f64, 2),
        ("cep_ren", b.we.b.ren as f64, 1),
        ("cep_nren", b.we.b.nren as f64, 1),
        ("cep_tot", b.we.b.tot() as f64, 1),
        ("co2", b.we.b.co2 as f64, 2),
        ("rer", ep.rer as f64, 2),
        ("rer_nrb", ep.rer_nrb as f64, 2),
        ("used", (b.used.epus + b.used.nepus + b.used.cgnus) as f64, 2),
        ("epus", b.used.epus as f64, 2),
        ("nepus", b.used.nepus as f64, 2),
        ("cgnus", b.used.cgnus as f64, 2),
        ("prod", b.prod.an as f64, 2),
        ("del", b.del.an as f64, 2),
        ("del_grid", b.del.grid as f64, 2),
        ("del_onst", b.del.onst as f64, 2),
        ("exp", b.exp.an as f64, 2),
        ("exp_grid", b.exp.grid as f64, 2),
        ("exp_nepus", b.exp.nepus as f64, 2),
        ("a_ren", b.we.a.ren as f64, 2),
        ("a_nren", b.we.a.nren as f64, 2),
        ("a_tot", b.we.a.tot() as f64, 2),
        ("a_co2", b.we.a.co2 as f64, 2),
        ("b_ren", b.we.b.ren as f64, 2),
        ("b_nren", b.we.b.nren as f64, 2),
        ("b_tot", b.we.b.tot() as f64, 2),
        ("b_co2", b.we.b.co2 as f64, 2),
    ];
    for (k, v, d) in exp {
        out.compared += 1;
        match p.scalars.get(k) {
            Some(x) if near(*x, v, d) => {}
            x => out.viol("plain_report_states_the_result", &[], cfg, format!("{k} printed as {x:?}"), format!("{v} at {d} decimals")),
        }
    }
    for (k, v) in [("ACS", b.needs.ACS), ("CAL", b.needs.CAL), ("REF", b.needs.REF)] {
        let printed = p.demands.get(k).cloned().unwrap_or_default();
        let ok = match v {
            None => printed == "-",
            Some(x) => printed.parse::<f64>().map(|p| near(p, x as f64, 1)).unwrap_or(false),
        };
        if !ok {
            out.viol("plain_report_states_the_result", &[], cfg, format!("demand {k} printed as `{printed}`"), format!("{v:?} at 1 decimal"));
        }
    }
    // tables: sorted, same keys, same numbers
    if p.tables.len() != 7 {
        out.viol("plain_report_readable", &[], cfg, format!("{} tables", p.tables.len()), "7 tables");
        return Some(p);
    }
    let f32map = |m: &dyn Fn() -> Vec<(String, f64)>| -> Vec<(String, f64)> { m() };
    let simple: Vec<(usize, &str, Vec<(String, f64)>)> = vec![
        (0, "used by service", f32map(&|| b.used.epus_by_srv.iter().map(|(k, v)| (k.to_string(), *v as f64)).collect())),
        (1, "used by carrier", f32map(&|| b.used.epus_by_cr.iter().map(|(k, v)| (k.to_string(), *v as f64)).collect())),
        (2, "produced by carrier", f32map(&|| b.prod.by_cr.iter().map(|(k, v)| (k.to_string(), *v as f64)).collect())),
        (3, "produced by source", f32map(&|| b.prod.by_src.iter().map(|(k, v)| (k.to_string(), *v as f64)).collect())),
        (4, "produced and used by source", f32map(&|| b.prod.epus_by_src.iter().map(|(k, v)| (k.to_string(), *v as f64)).collect())),
    ];
    for (ti, name, exp) in simple {
        let t = &p.tables[ti];
        out.compared += 1;
        let lines: Vec<String> = t.iter().map(|(k, v)| format!("- {k}: {v}")).collect();
        let mut sorted = lines.clone();
        sorted.sort();
        if lines != sorted {
            out.viol("tables_sorted", &[], cfg, format!("table `{name}`: {lines:?}"), "sorted lines");
        }
        let mut e2 = exp.clone();
        e2.sort_by(|a, b| a.0.cmp(&b.0));
        let mut keys: Vec<&String> = t.iter().map(|(k, _)| k).collect();
        keys.sort();
        if keys != e2.iter().map(|(k, _)| k).collect::<Vec<_>>() {
            out.viol("plain_report_states_the_result", &[], cfg, format!("table `{name}` keys {keys:?}"), format!("{:?}", e2.iter().map(|(k, _)| k).collect::<Vec<_>>()));
            continue;
        }
        for (k, v) in t {
            let x = e2.iter().find(|(kk, _)| kk == k).map(|(_, x)| *x).unwrap_or(f64::NAN);
            if !v.parse::<f64>().map(|p| near(p, x, 2)).unwrap_or(false) {
                out.viol("plain_report_states_the_result", &[], cfg, format!("table `{name}` {k} printed as {v}"), format!("{x} at 2 decimals"));
            }
        }
    }
    for (ti, name, m) in [(5usize, "step A by service", &b.we.a_by_srv), (6, "step B by service", &b.we.b_by_srv)] {
        let t = &p.tables[ti];
        out.compared += 1;
        let lines: Vec<String> = t.iter().map(|(k, v)| format!("- {k}: {v}")).collect();
        let mut sorted = lines.clone();
        sorted.sort();
        if lines != sorted {
            out.viol("tables_sorted", &[], cfg, format!("table `{name}`: {lines:?}"), "sorted lines");
        }
        let mut keys: Vec<String> = t.iter().map(|(k, _)| k.clone()).collect();
        keys.sort();
        let mut ek: Vec<String> = m.keys().map(|k| k.to_string()).collect();
        ek.sort();
        if keys != ek {
            out.viol("plain_report_states_the_result", &[], cfg, format!("table `{name}` keys {keys:?}"), format!("{ek:?}"));
            continue;
        }
        for (k, v) in t {
            let w: &RenNrenCo2 = m.iter().find(|(kk, _)| kk.to_string() == *k).map(|(_, w)| w).unwrap();
            let line = format!(": {v}");
            for (lab, x) in [(": ren ", w.ren as f64), (", nren ", w.nren as f64), ("tot: ", w.tot() as f64), ("co2: ", w.co2 as f64)] {
                if !num_after(&line, lab).map(|p| near(p, x, 2)).unwrap_or(false) {
                    out.viol("plain_report_states_the_result", &[], cfg, format!("table `{name}` {k}: `{v}`"), format!("{lab}{x}"));
                }
            }
        }
    }
    Some(p)
}

fn flatten_json(v: &serde_json::Value, prefix: &str, out: &mut BTreeMap<String, f64>) {
    match v {
        serde_json::Value::Number(n) => {
            out.insert(prefix.to_string(), n.as_f64().unwrap_or(f64::NAN));
        }
        serde_json::Value::Object(m) => {
            for (k, x) in m {
                let p = if prefix.is_empty() { k.clone() } else { format!("{prefix}.{k}") };
                flatten_json(x, &p, out);
            }
        }
        serde_json::Value::Array(a) => {
            for (i, x) in a.iter().enumerate() {
                flatten_json(x, &format!("{prefix}[{i}]"), out);
            }
        }
        _ => {}
    }
}

/// first difference between two JSON values: structure and strings exact, numbers within 0.0011 + 1e-6 relative
fn json_diff(a: &serde_json::Value, b: &serde_json::Value, path: &str) -> Option<String> {
    use serde_json::Value as J;
    match (a, b) {
        (J::Number(x), J::Number(y)) => {
            let (x, y) = (x.as_f64().unwrap_or(f64::NAN), y.as_f64().unwrap_or(f64::NAN));
            if (x - y).abs() <= 0.0011 + 1e-6 * x.abs().max(y.abs()) {
                None
            } else {
                Some(format!("{path}: {x} vs {y}"))
            }
        }
        (J::Object(x), J::Object(y)) => {
            if x.len() != y.len() {
                return Some(format!("{path}: {} vs {} keys", x.len(), y.len()));
            }
            for (k, v) in x {
                match y.get(k) {
                    Some(w) => {
                        if let Some(d) = json_diff(v, w, &format!("{path}.{k}")) {
                            return Some(d);
                        }
                    }
                    None => return Some(format!("{path}.{k} missing")),
                }
            }
            None
        }
        (J::Array(x), J::Array(y)) => {
            if x.len() != y.len() {
                return Some(format!("{path}: lengths {} vs {}", x.len(), y.len()));
            }
            x.iter().zip(y).enumerate().find_map(|(i, (v, w))| json_diff(v, w, &format!("{path}[{i}]")))
        }
        (x, y) => {
            if x == y {
                None
            } else {
                Some(format!("{path}: {x} vs {y}"))
            }
        }
    }
}

fn check_json(ep: &EnergyPerformance, json: &str, cfg: &str, out: &mut Out) {
    out.compared += 1;
    let v: serde_json::Value = match serde_json::from_str(json) {
        Ok(v) => v,
        Err(e) => {
            out.viol("json_valid", &[], cfg, format!("{e}"), "valid JSON");
            return;
        }
    };
    let mut jf = BTreeMap::new();
    flatten_json(&v, "", &mut jf);
    let flat = result_flat(ep);
    let mut bad = vec![];
    for (p, l) in &flat {
        let Some(x) = l.num() else { continue };
        if p.starts_with("misc") || p.ends_with(".carrier") {
            continue;
        }
        let is_rnc = p.ends_with(".ren") || p.ends_with(".nren") || p.ends_with(".co2");
        match jf.get(p) {
            Some(y) => {
                let ok = if is_rnc { (x - y).abs() <= 0.0005 * 1.01 + 2e-7 * x.abs() } else { (x - y).abs() <= 1e-6 * x.abs().max(1e-30) || x == *y };
                if !ok {
                    bad.push(format!("{p}: json {y} vs {x}"));
                }
            }
            None => bad.push(format!("{p}: absent in json (value {x})")),
        }
    }
    if !bad.is_empty() {
        bad.sort();
        out.viol("json_equals_result", &[], cfg, bad[..bad.len().min(4)].join("; "), "every numeric field (RenNrenCo2 at 3 decimals)");
    }
    // read back and re-serialize
    match serde_json::from_str::<EnergyPerformance>(json) {
        Ok(back) => match serde_json::to_string(&back).map_err(|e| e.to_string()).and_then(|t| serde_json::from_str::<serde_json::Value>(&t).map_err(|e| e.to_string())) {
            Ok(v2) => {
                // equal up to the documented precision (3 decimals; f32 rounding is not idempotent for huge values)
                if let Some(d) = json_diff(&v, &v2, "") {
                    out.viol("json_reads_back_equal", &[], cfg, format!("re-serialized value differs at {d}"), "the same JSON value");
                }
                // ... and the value read back is the result itself, leaf by leaf (kinds of components, tags, ids, values;
                // weighted energies at the 3 decimals the JSON carries)
                let fb = result_flat(&back);
                let mut bad = vec![];
                // the echoed inputs too: component kinds, ids, tags, comments and values (exact), factors (3 decimals)
                for (what, a, b, t) in [
                    ("components", crate::tree::flat_str(&format!("{:?}", ep.components)), crate::tree::flat_str(&format!("{:?}", back.components)), 1e-6),
                    ("wfactors", crate::tree::flat_str(&format!("{:?}", ep.wfactors)), crate::tree::flat_str(&format!("{:?}", back.wfactors)), 0.0011),
                ] {
                    for (p, l) in &a {
                        match (l.num(), b.get(p)) {
                            (Some(x), Some(m)) => {
                                let y = m.num().unwrap_or(f64::NAN);
                                if !((x - y).abs() <= t + 2e-6 * x.abs() || x == y || (x.is_nan() && y.is_nan())) {
                                    bad.push(format!("{what}{p}: read back {y} vs {x}"));
                                }
                            }
                            (None, Some(m)) => {
                                if format!("{m:?}") != format!("{l:?}") {
                                    bad.push(format!("{what}{p}: read back {m:?} vs {l:?}"));
                                }
                            }
                            (_, None) => bad.push(format!("{what}{p}: absent in the value read back")),
                        }
                    }
                    for p in b.keys() {
                        if !a.contains_key(p) {
                            bad.push(format!("{what}{p}: only in the value read back"));
                        }
                    }
                }
                for (p, l) in &flat {
                    if p.starts_with("misc") {
                        continue;
                    }
                    match (l.num(), fb.get(p)) {
                        (Some(x), Some(m)) => {
                            let y = m.num().unwrap_or(f64::NAN);
                            if !((x - y).abs() <= 0.0011 + 2e-6 * x.abs() || x == y || (x.is_nan() && y.is_nan())) {
                                bad.push(format!("{p}: read back {y} vs {x}"));
                            }
                        }
                        (None, Some(m)) => {
                            if format!("{m:?}") != format!("{l:?}") {
                                bad.push(format!("{p}: read back {m:?} vs {l:?}"));
                            }
                        }
                        (_, None) => bad.push(format!("{p}: absent in the value read back")),
                    }
                }
                for p in fb.keys() {
                    if !flat.contains_key(p) && !p.starts_with("misc") {
                        bad.push(format!("{p}: only in the value read back"));
                    }
                }
                if !bad.is_empty() {
                    bad.sort();
                    out.viol("json_reads_back_equal", &["structure"], cfg, bad[..bad.len().min(4)].join("; "), "the result itself (component kinds, tags, values)");
                }
            }
            Err(e) => out.viol("json_reads_back_equal", &[], cfg, format!("{e}"), "serializable"),
        },
        Err(e) => out.viol("json_reads_back_equal", &[], cfg, format!("from_str fails: {e}"), "an equal result"),
    }
}

fn check_xml(ep: &EnergyPerformance, xml: &str, cfg: &str, feats: &[&str], out: &mut Out) {
    out.compared += 1;
    let root = match xmlcheck::parse(xml) {
        Ok(r) => r,
        Err(e) => {
            out.viol("xml_well_formed", feats, cfg, e, "well-formed XML");
            return;
        }
    };
    let num = |name: &str| -> Option<f64> {
        let mut v = vec![];
        root.find_all(name, &mut v);
        v.first().and_then(|e| e.text.trim().parse::<f64>().ok())
    };
    let b = ep.balance_m2.we.b;
    let epm2 = {
        let mut v = vec![];
        root.find_all("Epm2", &mut v);
        v.first().map(|e| (e.child("tot").and_then(|x| x.text.trim().parse::<f64>().ok()), e.child("nren").and_then(|x| x.text.trim().parse::<f64>().ok())))
    };
    let checks: Vec<(&str, Option<f64>, f64, i32)> = vec![
        ("kexp", num("kexp"), ep.k_exp as f64, 2),
        ("AreaRef", num("AreaRef"), ep.arearef as f64, 2),
        ("Epm2.tot", epm2.and_then(|x| x.0), (b.ren + b.nren) as f64, 1),
        ("Epm2.nren", epm2.and_then(|x| x.1), b.nren as f64, 1),
    ];
    for (n, got, exp, d) in checks {
        match got {
            Some(g) if near(g, exp, d) => {}
            g => out.viol("xml_states_the_result", feats, cfg, format!("<{n}> = {g:?}"), format!("{exp} at {d} decimals")),
        }
    }
    // components: same number of elements, same values at 2 decimals, in order
    let mut els = vec![];
    for n in ["Consumo", "Produccion", "EAux", "Salida"] {
        root.find_all(n, &mut els);
    }
    if els.len() != ep.components.data.len() {
        out.viol("xml_states_the_result", feats, cfg, format!("{} component elements", els.len()), format!("{}", ep.components.data.len()));
    }
    let mut comps = vec![];
    root.find_all("Componentes", &mut comps);
    if let Some(c) = comps.first() {
        let data: Vec<&xmlcheck::El> = c.children.iter().filter(|e| matches!(e.name.as_str(), "Consumo" | "Produccion" | "EAux" | "Salida")).collect();
        for (e, comp) in data.iter().zip(ep.components.data.iter()) {
            let vals: Vec<f64> = e.child("Valores").map(|v| v.text.split(',').filter_map(|x| x.trim().parse().ok()).collect()).unwrap_or_default();
            let exp = comp.values();
            if vals.len() != exp.len() || vals.iter().zip(exp).any(|(a, b)| !near(*a, *b as f64, 2)) {
                out.viol("xml_states_the_result", feats, cfg, format!("<{}> values {vals:?}", e.name), format!("{exp:?}"));
            }
        }
        let nd = c.children.iter().filter(|e| e.name == "Demanda").count();
        let exp_nd = [&ep.components.needs.ACS, &ep.components.needs.CAL, &ep.components.needs.REF].iter().filter(|x| x.is_some()).count();
        if nd != exp_nd {
            out.viol("xml_states_the_result", feats, cfg, format!("{nd} <Demanda> elements"), format!("{exp_nd}"));
        }
    }
}

fn strings() -> Vec<&'static str> {
    vec![
        "texto", "a<b", "a>b", "a&b", "a\"b", "a'b", "a\\b", "]]>", "&amp;", "<!--", "-->", "<?xml", "año", "€uro", "😀", "a<b>&c\"d'e\\f", "--", "</Comentario>", "&lt;", "&#x0;", "<![CDATA[", "a: b", "%s{}", "\u{feff}x", "η>0.9", "Edificio «A» & anexo", "ñ<ñ", "日本語\"x\"", "é&é>é",
    ]
}

const P_STR: &str = "# S:";

impl StateCheck for C17 {
    fn check(&self, text: &str, _l: &[Line], out: &mut Out) {
        let special = text.lines().find_map(|l| l.strip_prefix(P_STR)).map(|s| s.to_string());
        let wf_text = text.lines().find_map(|l| l.strip_prefix("# WF:")).map(|s| s.replace("\\n", "\n"));
        let feats: Vec<&str> = if special.is_some() { vec!["special_string"] } else { vec![] };
        let c = match subj::parse(text) {
            Ok(c) => c,
            Err(_) => {
                out.typed_errors += 1;
                return;
            }
        };
        if c.data.is_empty() {
            return;
        }
        let has_needs = c.needs.ACS.is_some() || c.needs.CAL.is_some() || c.needs.REF.is_some();
        let fs = match &wf_text {
            Some(t) => match subj::from_text(t) {
                Ok(f) => f,
                Err(_) => {
                    out.typed_errors += 1;
                    return;
                }
            },
            None => subj::fset("PENINSULA").clone(),
        };
        let mut plains: Vec<Plain> = vec![];
        for (run, (k, area, lm)) in [(0.0f32, 1.0f32, false), (0.5, 3.0, true), (0.0, 1.0, false), (0.0, 1.0, false), (0.0, 1.0, false), (0.0, 1.0e6, false), (1.0, 0.002, true)].iter().enumerate() {
            out.evals += 1;
            let ep = match subj::eval(&c, &fs, *k, *area, *lm) {
                Ok(e) => cte::incorpora_demanda_renovable_acs_nrb(e),
                Err(_) => {
                    out.typed_errors += 1;
                    return;
                }
            };
            let cfg = format!("k_exp={k} area={area} load_matching={lm} run={run}");
            // a writer that panics produces no document at all: that is this property's business too
            let txt = match std::panic::catch_unwind(std::panic::AssertUnwindSafe(|| ep.to_plain())) {
                Ok(t) => t,
                Err(_) => {
                    out.viol("plain_report_produced", &feats, &cfg, format!("the writer panics at {}", crate::core::last_panic_location()), "a report");
                    return;
                }
            };
            let mut p = check_plain(&ep, &txt, &cfg, out);
            if !crate::cmp::ratios_ok(&ep, subj::magnitude(&c, &fs)) {
                // ratios of a total that is rounding noise are not comparable between runs
                if let Some(p) = p.as_mut() {
                    p.scalars.remove("rer");
                    p.scalars.remove("rer_nrb");
                }
            }
            // (runs 5 and 6: a site of 1e6 m2 and an area of 0.002 m2 — per-m2 figures 1e-6 and 500 times the absolute ones)
            if run < 2 || run >= 5 {
                match serde_json::to_string(&ep) {
                    Ok(j) => check_json(&ep, &j, &cfg, out),
                    Err(e) => out.viol("json_valid", &[], &cfg, format!("serialization fails: {e}"), "JSON"),
                }
                let mut f2 = feats.clone();
                if has_needs {
                    f2.push("demands_present");
                    out.regime("demands_present");
                } else {
                    out.regime("demands_absent");
                }
                match std::panic::catch_unwind(std::panic::AssertUnwindSafe(|| ep.to_xml())) {
                    Ok(x) => check_xml(&ep, &x, &cfg, &f2, out),
                    Err(_) => out.viol("xml_produced", &f2, &cfg, format!("the writer panics at {}", crate::core::last_panic_location()), "an XML document"),
                }
            }
            // runs 0, 2, 3, 4 are the same evaluation under other hash keys: same tables
            if let Some(p) = p {
                if run == 0 || (2..5).contains(&run) {
                    plains.push(p);
                }
            }
        }
        if plains.len() >= 2 {
            out.compared += 1;
            out.nontrivial = true;
            for p in &plains[1..] {
                let a: Vec<Vec<&String>> = plains[0].tables.iter().map(|t| t.iter().map(|(k, _)| k).collect()).collect();
                let b: Vec<Vec<&String>> = p.tables.iter().map(|t| t.iter().map(|(k, _)| k).collect()).collect();
                if a != b {
                    out.viol("tables_do_not_vary_between_runs", &[], "repeat", format!("{b:?}"), format!("{a:?}"));
                }
                for (k, v) in &plains[0].scalars {
                    let Some(w) = p.scalars.get(k).copied() else { continue };
                    // one unit of the last printed digit (C_ep has one decimal, the rest two)
                    let unit = if k.starts_with("cep_") { 0.11 } else { 0.011 };
                    if (v - w).abs() > unit + 1e-6 * v.abs() && !(v.is_nan() && w.is_nan()) {
                        out.viol("report_does_not_vary_between_runs", &[], "repeat", format!("{k}={w}"), format!("{v}"));
                    }
                }
            }
        }
        if special.is_some() {
            out.regime("special_string");
        }
        // CLI leg
        if self.cli && cli::available() && wf_text.is_none() {
            let o = cli::run(&cli::sv(&["-c", "@c.csv", "-l", "PENINSULA", "--json", "@o.json", "--xml", "@o.xml", "--txt", "@o.txt"]), &[("c.csv", text.as_bytes())], &["o.json", "o.xml", "o.txt"], Some(7), Duration::from_secs(10));
            out.regime("cli_run");
            let cfg = "cteepbd -c <file> -l PENINSULA --json --xml --txt";
            if o.status != Some(0) {
                out.typed_errors += 1;
                return;
            }
            // the same run when the three paths already hold a longer, older output: same files, byte for byte
            let o2 = cli::run_env(&cli::sv(&["-c", "@c.csv", "-l", "PENINSULA", "--json", "@o.json", "--xml", "@o.xml", "--txt", "@o.txt"]), &[("c.csv", text.as_bytes())], &["o.json", "o.xml", "o.txt"], Some(7), Duration::from_secs(10), true);
            out.regime("cli_run_over_existing_files");
            if o2.status != Some(0) || o2.files != o.files {
                let which: Vec<&str> = o.files.iter().zip(o2.files.iter()).filter(|(a, b)| a != b).map(|(a, _)| a.0.as_str()).collect();
                out.viol("cli_output_files_replace_existing_ones", &[], cfg, format!("exit {:?}; files that differ from a run into fresh paths: {which:?} (lengths {:?})", o2.status, o2.files.iter().map(|f| f.1.as_ref().map(|b| b.len())).collect::<Vec<_>>()), "the same three files");
            }
            // ... and when they hold older files of exactly the same length (same layout, other digits)
            let same_len = |n: &str| -> Vec<u8> { o.files.iter().find(|(k, _)| k == n).and_then(|(_, b)| b.clone()).unwrap_or_default().iter().map(|c| if c.is_ascii_digit() { b'7' } else { *c }).collect() };
            let (oj, ox, ot) = (same_len("o.json"), same_len("o.xml"), same_len("o.txt"));
            let o3 = cli::run(&cli::sv(&["-c", "@c.csv", "-l", "PENINSULA", "--json", "@o.json", "--xml", "@o.xml", "--txt", "@o.txt"]), &[("c.csv", text.as_bytes()), ("o.json", &oj), ("o.xml", &ox), ("o.txt", &ot)], &["o.json", "o.xml", "o.txt"], Some(7), Duration::from_secs(10));
            if o3.status != Some(0) || o3.files != o.files {
                out.viol("cli_output_files_replace_existing_ones", &[], cfg, format!("exit {:?}; over existing files of the same length the files are not those of a run into fresh paths", o3.status), "the same three files");
            }
            // the same path given for two outputs: whatever the order of writing, the file must be ONE of the complete documents
            {
                let raw = |n: &str| o.files.iter().find(|(k, _)| k == n).and_then(|(_, b)| b.clone());
                for (a, b, fa, fb) in [("--json", "--xml", "o.json", "o.xml"), ("--xml", "--txt", "o.xml", "o.txt"), ("--txt", "--json", "o.txt", "o.json")] {
                    let o4 = cli::run(&cli::sv(&["-c", "@c.csv", "-l", "PENINSULA", a, "@same.out", b, "@same.out"]), &[("c.csv", text.as_bytes())], &["same.out"], Some(7), Duration::from_secs(10));
                    out.regime("cli_same_path_for_two_outputs");
                    let got = o4.files.iter().find(|(k, _)| k == "same.out").and_then(|(_, b)| b.clone());
                    // byte-identical to one of the two documents of the ordinary run, or (the order of hash-ordered parts may
                    // differ between two processes) at least ONE complete document of the right size: valid JSON that reads
                    // back, well-formed XML, or a report without markup
                    let complete = |g: &Vec<u8>| -> bool {
                        let t = String::from_utf8_lossy(g);
                        let lens: Vec<usize> = [raw(fa), raw(fb)].iter().flatten().map(|b| b.len()).collect();
                        let size_ok = lens.iter().any(|l| (g.len() as f64 - *l as f64).abs() <= 0.02 * *l as f64 + 16.0);
                        let tt = t.trim_start_matches('\u{feff}').trim_start();
                        let one = if tt.starts_with('{') {
                            serde_json::from_str::<EnergyPerformance>(&t).is_ok()
                        } else if tt.starts_with('<') {
                            xmlcheck::parse(&t).is_ok()
                        } else {
                            !t.contains("</") && !t.contains("\":") && parse_plain(&t).is_ok()
                        };
                        size_ok && one
                    };
                    let ok4 = match &got {
                        Some(g) => Some(g) == raw(fa).as_ref() || Some(g) == raw(fb).as_ref() || complete(g),
                        None => false,
                    };
                    if o4.status != Some(0) || !ok4 {
                        out.viol("cli_same_path_for_two_outputs_holds_one_document", &[], format!("cteepbd -c <file> -l PENINSULA {a} X {b} X"), format!("exit {:?}; X ({} bytes) is neither the {a} nor the {b} document of a run into separate paths", o4.status, got.map(|g| g.len()).unwrap_or(0)), "one complete document");
                    }
                }
            }
            let get = |n: &str| o.files.iter().find(|(k, _)| k == n).and_then(|(_, b)| b.clone()).map(|b| String::from_utf8_lossy(&b).to_string());
            match (get("o.json"), get("o.xml"), get("o.txt")) {
                (Some(j), Some(x), Some(t)) => {
                    out.compared += 1;
                    if !o.stdout.contains(t.trim_end()) {
                        out.viol("cli_txt_equals_stdout_report", &[], cfg, "the --txt file is not the report printed on stdout", "same text");
                    }
                    match serde_json::from_str::<EnergyPerformance>(&j) {
                        Ok(ep) => {
                            // the files describe the same result: check each against the result read back
                            // (JSON rounds RenNrenCo2 to 3 decimals: compare the report at its own precision + 0.0005)
                            if let Ok(p) = parse_plain(&t) {
                                let b = ep.balance_m2.we.b;
                                for (k, v, d) in [("cep_ren", b.ren as f64, 1), ("cep_nren", b.nren as f64, 1), ("co2", b.co2 as f64, 2), ("rer", ep.rer as f64, 2), ("k_exp", ep.k_exp as f64, 2), ("arearef", ep.arearef as f64, 2)] {
                                    let x = p.scalars.get(k).copied().unwrap_or(f64::NAN);
                                    if (x - v).abs() > 0.5 * 10f64.powi(-d) + 0.00051 + 1e-6 * v.abs() {
                                        out.viol("cli_files_state_the_same_result", &[], cfg, format!("txt {k}={x}"), format!("json {v}"));
                                    }
                                }
                            }
                            if let Err(e) = xmlcheck::parse(&x) {
                                let mut f2 = feats.clone();
                                if has_needs {
                                    f2.push("demands_present");
                                }
                                out.viol("xml_well_formed", &f2, cfg, e, "well-formed XML file");
                            }
                        }
                        Err(e) => out.viol("json_reads_back_equal", &[], cfg, format!("the --json file cannot be read back: {e}"), "a result"),
                    }
                }
                _ => out.viol("cli_writes_output_files", &[], cfg, "a requested output file is missing", "three files"),
            }
        }
    }
}

fn bases_for_strings() -> Vec<Letter> {
    // each base has one slot `{S}` per position kind; positions are filled by the model
    let mk = |s: &str| Letter::one(Line::Raw(s.to_string()));
    vec![
        mk("CONSUMO, ILU, ELECTRICIDAD, 3, 1 # {S}\nPRODUCCION, EL_INSITU, 1, 3"),
        mk("CONSUMO, ILU, ELECTRICIDAD, 3, 1\nPRODUCCION, EL_INSITU, 1, 3 # {S}"),
        mk("1, CONSUMO, ACS, GASNATURAL, 3, 1\n1, AUX, 1, 1 # {S}\n1, SALIDA, ACS, 2, 1"),
        mk("1, CONSUMO, ACS, GASNATURAL, 3, 1\n1, AUX, 1, 1\n1, SALIDA, ACS, 2, 1 # {S}"),
        mk("#META CTE_NOTA: {S}\nCONSUMO, ILU, ELECTRICIDAD, 3, 1"),
        mk("#META {S}: valor\nCONSUMO, ILU, ELECTRICIDAD, 3, 1"),
        mk("#CTE_{S}: {S}\nCONSUMO, CAL, GASNATURAL, 3, 1\nDEMANDA, CAL, 2, 1 # {S}"),
        mk("DEMANDA, ACS, 4, 4\nDEMANDA, REF, 1, 1\n1, CONSUMO, ACS, EAMBIENTE, 3, 1 # {S}\n1, CONSUMO, ACS, ELECTRICIDAD, 1, 1"),
        mk("# WF:#META {S}: {S}\\nELECTRICIDAD, RED, SUMINISTRO, A, 0.5, 2.0, 0.42 # {S}\\nGASNATURAL, RED, SUMINISTRO, A, 0.0, 1.1, 0.22\nCONSUMO, CAL, GASNATURAL, 3, 1\nCONSUMO, ILU, ELECTRICIDAD, 1, 1"),
    ]
}

/// base x string: the `{S}` slots of the base are replaced by the string
pub struct StringsSpace {
    bases: Vec<String>,
    strs: Vec<&'static str>,
}
#[derive(Clone, Debug, Hash, PartialEq, Eq)]
pub struct SS(Vec<u16>);
impl Space for StringsSpace {
    type S = SS;
    fn init(&self) -> Vec<SS> {
        vec![SS(vec![])]
    }
    fn actions(&self, s: &SS, out: &mut Vec<u32>) {
        match s.0.len() {
            0 => out.extend(0..self.bases.len() as u32),
            1 => out.extend(0..self.strs.len() as u32),
            _ => {}
        }
    }
    fn next(&self, s: &SS, a: u32) -> Option<SS> {
        let mut n = s.clone();
        n.0.push(a as u16);
        Some(n)
    }
    fn lines(&self, s: &SS) -> Option<(String, Vec<Line>)> {
        if s.0.len() != 2 {
            return None;
        }
        let st = self.strs[s.0[1] as usize];
        Some((format!("{P_STR}{st}\n{}\n", self.bases[s.0[0] as usize].replace("{S}", st)), vec![]))
    }
    fn depth(&self, s: &SS) -> usize {
        s.0.len()
    }
}

fn extra_letters() -> Vec<Letter> {
    vec![
        Letter::one(d("ACS", &k(&[4, 4]))),
        Letter::one(d("CAL", &k(&[1, 3]))),
        Letter::many(vec![a(Some(1), &k(&[1, 1])), o(1, "ACS", &k(&[1, 1])), o(1, "CAL", &k(&[3, 1]))]),
        Letter::one(u(Some(1), "REF", "ELECTRICIDAD", &[123456, 100 << 16])),
        // very large building: weighted energy beyond 2^31 / 1000
        Letter::one(u(Some(1), "CAL", "GASNATURAL", &[500_000_000, 100])),
        Letter::one(p(Some(0), "EL_INSITU", &[300_000_000, 900_000_000])),
        Letter::one(o(9, "REF", &[-300, -100])),
        // demands whose annual sum is exactly zero (declared, so reported as 0.0 and not as absent)
        Letter::one(d("REF", &[0, 0])),
        // an annual demand (one value) beside components with two steps
        Letter::one(d("ACS", &[1234])),
    ]
}

pub fn run(ctx: &Ctx) -> i32 {
    let shared = Shared::new("C17", ctx);
    let bases: Vec<String> = bases_for_strings().into_iter().map(|l| l.lines[0].render()).collect();
    explore(ctx, "comment / metadata strings: 9 placements x 29 strings (in-process + CLI files)", StringsSpace { bases, strs: strings() }, C17 { cli: true }, shared.clone());
    let mut al = alpha::flow(2, &[0, 100, 300], Rich::Base);
    al.extend(extra_letters());
    let d = if ctx.quick() { 2 } else { 3 };
    explore(ctx, &format!("FLOW + demands/aux/outputs/large values, depth<={d} (in-process)"), Wide { alphabet: al, bases: alpha::bases(false), max_add: d, repeat: false }, C17 { cli: false }, shared.clone());
    // one level deeper over the reduced vector set {1,3}
    let mut al2 = alpha::flow(2, &[100, 300], Rich::Base);
    al2.extend(extra_letters());
    explore(ctx, &format!("FLOW values {{1,3}} + demands/aux/outputs/large values, depth<={} (in-process)", d + 1), Wide { alphabet: al2, bases: alpha::bases(false), max_add: d + 1, repeat: false }, C17 { cli: false }, shared.clone());
    {
        let n = if ctx.quick() { 10 } else { 14 };
        explore(ctx, &format!("COMBO: complete 12-step buildings, {n} subsystems absent/present"), Layered { slots: alpha::combo_slots(n), bases: alpha::bases(false) }, C17 { cli: false }, shared.clone());
    }
    explore(ctx, "VOCAB: every (service, carrier) pair / cogeneration fuel / production source added to a small building", Wide { alphabet: alpha::vocab_letters(), bases: alpha::vocab_base(), max_add: if ctx.quick() { 1 } else { 2 }, repeat: false }, C17 { cli: false }, shared.clone());
    explore(ctx, "shipped files + <=1 line (in-process + CLI files)", Wide { alphabet: alpha::seeded_letters(), bases: alpha::shipped_bases(), max_add: if ctx.quick() { 0 } else { 1 }, repeat: false }, C17 { cli: true }, shared.clone());
    finish(
        ctx,
        &shared,
        &C17 { cli: true },
        Finish {
            level: "model_checking",
            rule: "results of every FLOW(+demand/aux/output/large value) state and of 9 placements (component comments of every kind, metadata key and value, legacy metadata, demand comment, factor comments and metadata) x 29 strings (<, >, &, quotes, backslash, ]]>, &amp;, <!--, -->, <?xml, non-ASCII, 4-byte UTF-8, combinations); each evaluated 5 times (other hash keys / configuration): plain report parsed by label against the result at printed precision, tables sorted and stable across runs, JSON valid = result field by field and read back to the same value, XML accepted by a strict well-formedness checker and carrying kexp/AreaRef/Epm2/component values; CLI: --json/--xml/--txt files; non-trivial = tables compared across runs".into(),
            assumptions: strs(&["printed precision: half a unit of the last printed digit", "C0 control characters are outside the alphabet", "own XML 1.0 well-formedness checker (no DTD)", "CLI leg runs under the getrandom shim with a fixed seed"]),
            required_regimes: strs(&["demands_present", "demands_absent", "special_string", "cli_run"]),
            extra: serde_json::json!({}),
        },
    )
}

pub fn replay(path: &str) -> i32 {
    replay_file("C17", &C17 { cli: true }, path)
}
