//! C02 Results equal the EN ISO 52000-1 balance equations evaluated independently.

use super::{flow_models, strs, FlowSpec};
use crate::core::*;
use crate::model::*;
use crate::refm::balance::{self as refb, RefErr};
use crate::subj;
use crate::tree::result_flat;

#[derive(Clone, Copy)]
pub struct C02;

fn skip(p: &str) -> bool {
    p == "rer_nrb" || p == "rer_onst" || p.starts_with("misc")
}

pub fn compare(comps: &cteepbd::Components, fs: &str, k: f32, area: f32, lm: bool, out: &mut Out) {
    let f = subj::fset(fs);
    let cfg = format!("factors={fs} k_exp={k} area={area} load_matching={lm}");
    out.evals += 1;
    let real = subj::eval(comps, f, k, area, lm);
    let reference = refb::balance(comps, f, k as f64, area as f64, lm);
    out.compared += 1;
    match (real, reference) {
        (Ok(ep), Ok(r)) => {
            let mag = subj::magnitude(comps, f);
            let t = subj::tol(mag);
            let flat = result_flat(&ep);
            let ratios = crate::cmp::ratios_ok(&ep, mag);
            let mut diffs = vec![];
            let mut n = 0;
            for (p, l) in &flat {
                if skip(p) {
                    continue;
                }
                let Some(x) = l.num() else { continue };
                if p.ends_with(".carrier") {
                    continue;
                }
                n += 1;
                let ta = if p.starts_with("balance_m2.") { t / area as f64 } else { t };
                match r.get(p) {
                    Some(y) => {
                        let ok = if p == "rer" {
                            !ratios || (x - y).abs() <= (1e-4 + 2.0 * t / (ep.balance.we.b.tot().abs() as f64).max(1e-30)) * x.abs().max(1.0)
                        } else {
                            (x - y).abs() <= ta + 2e-5 * x.abs().max(y.abs())
                        };
                        if !ok {
                            diffs.push((p.clone(), format!("{x}"), format!("{y}")));
                        }
                    }
                    None => {
                        if x.abs() > ta {
                            diffs.push((p.clone(), format!("{x}"), "<no such quantity in the reference>".into()));
                        }
                    }
                }
            }
            for (p, y) in &r {
                if !flat.contains_key(p) && y.abs() > t {
                    diffs.push((p.clone(), "<absent>".into(), format!("{y}")));
                }
            }
            out.compared += n;
            if !diffs.is_empty() {
                diffs.sort();
                let feats: Vec<&str> = {
                    let mut f = vec![];
                    if ep.balance.used.cgnus > 0.0 {
                        f.push("cogeneration");
                    }
                    if comps.data.first().map(|c| cteepbd::types::HasValues::num_steps(c)).unwrap_or(0) > 1 {
                        f.push("multi_step");
                    }
                    f
                };
                let show = |i: usize| diffs.iter().take(4).map(|d| format!("{}={}", d.0, if i == 0 { &d.1 } else { &d.2 })).collect::<Vec<_>>().join("; ");
                out.viol("result_equals_reference", &feats, &cfg, format!("cteepbd: {}", show(0)), format!("EN ISO 52000-1 reference: {}", show(1)));
            }
            // regimes
            if ep.balance.exp.nepus > 0.0 && ep.balance.exp.grid > 0.0 {
                out.regime("export_to_nepb_and_grid");
            }
            if ep.balance_cr.values().any(|b| b.prod.by_src_an.len() > 1 && b.exp.by_src_an.values().all(|x| *x > 0.0)) {
                out.regime("both_sources_exported");
                out.nontrivial = true;
            }
            if ep.balance_cr.iter().any(|(c, b)| format!("{c}") != "ELECTRICIDAD" && b.exp.an > 0.0) {
                out.regime("thermal_surplus_exported");
            }
            if ep.balance.used.cgnus > 0.0 && ep.balance_cr.values().filter(|b| b.used.cgnus_an > 0.0).count() > 1 {
                out.regime("chp_two_fuels");
            }
            if lm && ep.balance_cr.values().any(|b| b.f_match.iter().any(|x| *x < 1.0)) {
                out.regime("load_matching_active");
            }
            if ep.balance.we.b_by_srv.len() > 1 {
                out.regime("several_services");
            }
        }
        (Err(_), Err(_)) => {
            out.typed_errors += 1;
            out.regime("both_refuse");
        }
        (Ok(_), Err(e)) => out.viol("reference_refuses_but_cteepbd_evaluates", &[], &cfg, "Ok", format!("{e:?}")),
        (Err(e), Ok(_)) => {
            // the subject may refuse for reasons the equations do not know about; report only factor lookups
            if matches!(e, subj::EpbdError::MissingFactor(_)) {
                out.viol("cteepbd_misses_a_factor_the_reference_finds", &[], &cfg, format!("{e}"), "Ok");
            } else {
                out.typed_errors += 1;
            }
        }
    }
    let _ = RefErr::WrongInput(String::new());
}

impl StateCheck for C02 {
    fn check(&self, text: &str, _l: &[Line], out: &mut Out) {
        let comps = match subj::parse(text) {
            Ok(c) => c,
            Err(_) => {
                out.typed_errors += 1;
                return;
            }
        };
        if comps.data.is_empty() {
            return;
        }
        let sets: &[&str] = if text.len() > 100_000 { &["PENINSULA", "SKEW+COGEN"] } else { &["PENINSULA", "CANARIAS", "SKEW", "SKEW+COGEN", "RAW_J(unprepared)"] };
        for fs in sets {
            for (k, area, lm) in [(0.0f32, 1.0f32, false), (0.25, 4.0, true), (1.0, 4.0, false)] {
                compare(&comps, fs, k, area, lm, out);
            }
        }
    }
}

/// The reference is itself validated against the published ISO/TR 52000-2 results pinned in the
/// repository's tests (J1-J9, to 0.1).
pub fn validate_reference() -> Result<usize, String> {
    const J: &str = subj::RAW_J;
    const J7: &str = "ELECTRICIDAD, RED, SUMINISTRO, A, 0.5, 2.0, 0.42\nGASNATURAL, RED, SUMINISTRO,A, 0.0, 1.1, 0.22\n";
    const J8: &str = "ELECTRICIDAD, RED, SUMINISTRO, A, 0.5, 2.0, 0.42\nGASNATURAL, RED, SUMINISTRO,A, 0.0, 1.1, 0.22\nBIOMASA, RED, SUMINISTRO, A, 1.0, 0.1, 0.07\n";
    // (file, factors, B at k=1, A)
    let cases: [(&str, &str, [f64; 3], [f64; 3]); 8] = [
        ("ejemploJ1_base.csv", J, [50.0, 200.0, 42.0], [50.0, 200.0, 42.0]),
        ("ejemploJ2_basePV.csv", J, [75.0, 100.0, 21.0], [75.0, 100.0, 21.0]),
        ("ejemploJ3_basePVexcess.csv", J, [120.0, -80.0, -16.8], [100.0, 0.0, 0.0]),
        ("ejemploJ5_gasPV.csv", J, [30.0, 169.0, 33.4], [20.0, 209.0, 41.8]),
        ("ejemploJ6_HPPV.csv", J, [180.5, 38.0, 8.0], [180.5, 38.0, 8.0]),
        ("ejemploJ7_cogenfuelgasboiler.csv", J7, [-14.0, 227.8, 45.0], [0.0, 214.5, 42.9]),
        ("ejemploJ8_cogenbiogasboiler.csv", J8, [144.0, 69.8, 21.3], [95.0, 119.5, 28.65]),
        ("ejemploJ9_electr.csv", J, [1385.5, -662.0, -139.0], [1009.5, 842.0, 176.8]),
    ];
    let mut n = 0;
    for (file, ftxt, b, a) in cases {
        let Ok(text) = std::fs::read_to_string(format!("/repo/test_data/{file}")) else { continue };
        let Ok(comps) = subj::parse(&text) else { continue };
        let f: cteepbd::Factors = ftxt.parse().map_err(|e| format!("{e}"))?;
        let r = refb::balance(&comps, &f, 1.0, 1.0, false).map_err(|e| format!("{file}: reference refuses: {e:?}"))?;
        for (j, c) in ["ren", "nren", "co2"].iter().enumerate() {
            let gb = r[&format!("balance_m2.we.b.{c}")];
            let ga = r[&format!("balance_m2.we.a.{c}")];
            if (gb - b[j]).abs() >= 0.1 || (ga - a[j]).abs() >= 0.1 {
                return Err(format!("{file}: reference gives B.{c}={gb} A.{c}={ga}, published {} / {}", b[j], a[j]));
            }
        }
        n += 1;
    }
    Ok(n)
}

pub fn run(ctx: &Ctx) -> i32 {
    let shared = Shared::new("C02", ctx);
    match validate_reference() {
        Ok(n) => shared.note(format!("reference model validated against {n} published ISO/TR 52000-2 examples (J1-J9) to 0.1")),
        Err(e) => {
            eprintln!("MACHINERY: the reference model disagrees with the published ISO/TR 52000-2 results: {e}");
            return 2;
        }
    }
    flow_models(ctx, &shared, C02, FlowSpec { quick_depth: 3, thorough_depth: 4, extra: vec![], deep: true, heavy_oracle: true, seeded: true, t3: true, valuesets: true });
    finish(
        ctx,
        &shared,
        &C02,
        Finish {
            level: "model_checking",
            rule: "every FLOW state (wide, deep, seeded) x 5 factor sets (2 regulatory, SKEW, SKEW+COGEN with user cogeneration export factors, the unprepared ISO/TR set) x 3 (k_exp, area, load matching): every numeric leaf of the result tree (generic walker; rer_nrb/rer_onst excluded) against an independent f64 evaluation of eqs (2),(9)-(14),(20)-(28),(32); non-trivial = both electricity sources exported".into(),
            assumptions: strs(&[
                "the reference consumes the normalized component list (normalization is C05/C06)",
                "documented assumptions: constant factors, PV before CHP, export factors averaged by exported share, cogeneration factor = weighted annual input / annual cogenerated electricity, user cogeneration lines win, reverse-calculated service shares",
                "tolerance 2e-5*magnitude+1e-6 (+2e-5 relative); RER 1e-4 when total above noise",
                "the reference is validated at start-up against the published ISO/TR 52000-2 results J1-J9 (0.1)",
            ]),
            required_regimes: strs(&["export_to_nepb_and_grid", "both_sources_exported", "thermal_surplus_exported", "chp_two_fuels", "load_matching_active", "several_services", "both_refuse"]),
            extra: serde_json::json!({}),
        },
    )
}

pub fn replay(path: &str) -> i32 {
    replay_file("C02", &C02, path)
}
