//! C10 Results depend on what is declared, not on file layout or on the run.

use std::collections::{BTreeMap, BTreeSet};
use std::sync::atomic::{AtomicU64, Ordering};

use super::strs;
use crate::alpha::{self, Rich};
use crate::cmp::{self, show};
use crate::core::*;
use crate::model::*;
use crate::subj;
use crate::tree::{result_flat, Flat};

#[derive(Clone, Copy)]
pub struct C10 {
    /// run the real binary as 'another process' (twice free-running, 8 shim seeds) on this model
    pub cli: bool,
    /// light mode: only reversal of the lines + repeated evaluation (used for the deeper model)
    pub light: bool,
}
const FULL: C10 = C10 { light: false, cli: false };
const FULL_CLI: C10 = C10 { light: false, cli: true };
#[allow(dead_code)]
const LIGHT: C10 = C10 { light: true, cli: false };

pub static SCHEDULES: AtomicU64 = AtomicU64::new(0);
pub static SITES_SEEN: AtomicU64 = AtomicU64::new(0);
pub static SITES_CLOSED: AtomicU64 = AtomicU64::new(0);
pub static SITES_BIG: AtomicU64 = AtomicU64::new(0);

fn sched_cap() -> usize {
    std::env::var("VERIF_C10_SCHEDULES").ok().and_then(|s| s.parse().ok()).unwrap_or(32)
}

struct Exec {
    meta: Vec<(String, String)>,
    flat: Flat,
    mag: f64,
    ratios: bool,
    ncomp: usize,
    orders: Vec<(String, Vec<String>)>,
}

/// run parse + evaluation (load matching on; with `both` also off, where flows can be exactly zero),
/// collect the iteration orders the hooks observed
fn exec_cfg(text: &str, both: bool, out: &mut Out) -> Result<Exec, String> {
    let _ = cteepbd::verif_hooks::take();
    out.evals += 1;
    let c = subj::parse(text).map_err(|e| format!("parse: {}", subj::err_kind(&e)))?;
    exec_comps(c, both, out)
}

/// the same for a component set built through the public API
fn exec_comps(c: cteepbd::Components, both: bool, out: &mut Out) -> Result<Exec, String> {
    let f = subj::fset("PENINSULA");
    let ep = subj::eval(&c, f, 0.5, 2.0, true).map_err(|e| format!("eval: {}", subj::err_kind(&e)))?;
    let mag = subj::magnitude(&c, f);
    let mut flat = result_flat(&ep);
    let mut ratios = cmp::ratios_ok(&ep, mag);
    if both {
        out.evals += 1;
        let ep0 = subj::eval(&c, f, 0.0, 1.0, false).map_err(|e| format!("eval: {}", subj::err_kind(&e)))?;
        ratios = ratios && cmp::ratios_ok(&ep0, mag);
        for (k, v) in result_flat(&ep0) {
            // ratios keep their "rer" prefix so that the noise guard applies to them
            let key = if k.starts_with("rer") { format!("{k}.nolm") } else { format!("nolm.{k}") };
            flat.insert(key, v);
        }
    }
    // the indicator the program always reports with the results: renewable share of the DHW demand (number, or
    // that it is not computable; the text of the message may name ids, which the rewritings change)
    match cteepbd::cte::fraccion_renovable_acs_nrb(&ep) {
        Ok(v) => {
            flat.insert("dhw.fraction".to_string(), crate::tree::Leaf::Num(v as f64));
        }
        Err(_) => {
            flat.insert("dhw.not_computable".to_string(), crate::tree::Leaf::Int(1));
        }
    }
    let log = cteepbd::verif_hooks::take();
    let meta = c.meta.iter().map(|m| (m.key.clone(), m.value.clone())).collect();
    Ok(Exec { meta, flat, mag, ratios, ncomp: c.data.len(), orders: group_orders(&log) })
}

fn exec(text: &str, out: &mut Out) -> Result<Exec, String> {
    exec_cfg(text, true, out)
}

/// (site + group, order of items). Sequences are cut when an item repeats (a new traversal of the same site).
fn group_orders(log: &[(&'static str, String)]) -> Vec<(String, Vec<String>)> {
    let mut out: Vec<(String, Vec<String>)> = vec![];
    let mut open: BTreeMap<String, usize> = BTreeMap::new();
    for (site, item) in log {
        let (group, it) = if let Some(i) = item.rfind('|') {
            (format!("{site}[{}]", &item[..i]), item[i + 1..].to_string())
        } else {
            match *site {
                "balance::compute_used_produced::source" | "components::complete_produced::id" | "components::assign_aux::out_service" => {
                    let mut sp = item.splitn(2, ':');
                    let g = sp.next().unwrap_or("");
                    (format!("{site}[{g}]"), sp.next().unwrap_or("").to_string())
                }
                _ => (site.to_string(), item.clone()),
            }
        };
        match open.get(&group) {
            Some(&i) if !out[i].1.contains(&it) => out[i].1.push(it),
            _ => {
                open.insert(group.clone(), out.len());
                out.push((group, vec![it]));
            }
        }
    }
    out
}

fn fact(n: usize) -> usize {
    (1..=n).product::<usize>().max(1)
}

fn compare(base: &Exec, other: &Exec, what: &str, feats: &[&str], out: &mut Out) {
    out.compared += 1;
    // the metadata (reference area, k_exp, location used by the program) are part of what is declared
    if base.meta != other.meta {
        out.viol("same_metadata", feats, what, format!("{:?}", other.meta), format!("{:?}", base.meta));
    }
    let ratios = base.ratios && other.ratios;
    let d = cmp::cmp_flat_m(&base.flat, &other.flat, subj::tol(base.mag), 1e-5, base.mag, other.mag, &|p| p.starts_with("rer") && !ratios, &|_, x| x);
    if !d.is_empty() {
        let (a, b) = show(&d);
        out.viol("same_results", feats, what, format!("rewritten / repeated: {b}"), format!("base: {a}"));
    }
}

struct DataLine {
    id: Option<i32>,
    /// tags after the id, e.g. ["CONSUMO","ILU","ELECTRICIDAD"]
    tags: Vec<String>,
    vals: Vec<f64>,
    comment: String,
}

fn parse_lines(text: &str) -> (Vec<String>, Vec<DataLine>) {
    let mut other = vec![];
    let mut data = vec![];
    let text = text.strip_prefix('\u{feff}').unwrap_or(text);
    for l in text.lines() {
        match cmp::split_line(l) {
            Some((pre, vals, comment)) => {
                let (id, tags) = match pre[0].parse::<i32>() {
                    Ok(i) => (Some(i), pre[1..].to_vec()),
                    Err(_) => (None, pre),
                };
                data.push(DataLine { id, tags, vals, comment });
            }
            None => other.push(l.to_string()),
        }
    }
    (other, data)
}

fn render(other: &[String], data: &[&DataLine], ids: &dyn Fn(&DataLine) -> Option<i32>) -> String {
    let mut s = String::new();
    for o in other {
        s.push_str(o);
        s.push('\n');
    }
    for d in data {
        let mut pre = vec![];
        if let Some(i) = ids(d) {
            pre.push(i.to_string());
        }
        pre.extend(d.tags.iter().cloned());
        s.push_str(&cmp::join_line(&pre, &d.vals, &d.comment));
        s.push('\n');
    }
    s
}

impl StateCheck for C10 {
    fn check(&self, text: &str, _l: &[Line], out: &mut Out) {
        let base = match exec(text, out) {
            Ok(b) => b,
            Err(_) => {
                out.typed_errors += 1;
                return;
            }
        };
        let (other, data) = parse_lines(text);
        let refs: Vec<&DataLine> = data.iter().collect();
        let keep = |d: &DataLine| d.id;
        let n = data.len();
        let mut try_text = |t2: String, what: &str, out: &mut Out| match exec(&t2, out) {
            Ok(e) => compare(&base, &e, what, &[what.split(':').next().unwrap_or("")], out),
            Err(e) => out.viol("rewriting_accepted", &[what.split(':').next().unwrap_or("")], what, format!("{e} on `{}`", t2.trim().replace('\n', " | ")), "evaluates like the base file"),
        };
        // 0. the same declared lines assembled through a history of library calls (part of the file read, one component
        //    pushed, normalized again; normalized twice)
        if !self.light {
            for v in crate::hist::variants(text, 5) {
                let what = format!("history: {}", v.desc);
                match v.comps {
                    Ok(c) => {
                        let _ = cteepbd::verif_hooks::take();
                        out.evals += 1;
                        match exec_comps(c, true, out) {
                            Ok(e) => compare(&base, &e, &what, &["history"], out),
                            Err(e) => out.viol("rewriting_accepted", &["history"], what.as_str(), e, "evaluates like the base file"),
                        }
                    }
                    Err(e) => out.viol("rewriting_accepted", &["history"], what.as_str(), e, "evaluates like the base file"),
                }
            }
        }
        // 1. line order
        if n >= 2 {
            out.nontrivial = true;
            let perms: Vec<Vec<usize>> = if self.light {
                vec![(0..n).rev().collect()]
            } else if n <= 4 {
                cmp::permutations(n).into_iter().filter(|p| p.iter().enumerate().any(|(i, x)| i != *x)).collect()
            } else {
                vec![(0..n).rev().collect(), (0..n).map(|i| (i + 1) % n).collect(), (0..n).map(|i| (i + n / 2) % n).collect()]
            };
            for p in perms {
                let d2: Vec<&DataLine> = p.iter().map(|i| refs[*i]).collect();
                try_text(render(&other, &d2, &keep), "reorder", out);
            }
            out.regime("reorder");
        }
        // 2. split one component into two lines adding up to it
        for i in 0..(if self.light { 0 } else { n }) {
            if data[i].vals.iter().all(|v| *v == 0.0) || data[i].tags[0] == "DEMANDA" && false {
                continue;
            }
            let a = DataLine { id: data[i].id, tags: data[i].tags.clone(), vals: data[i].vals.iter().map(|v| (v / 2.0).floor()).collect(), comment: data[i].comment.clone() };
            let b = DataLine { id: data[i].id, tags: data[i].tags.clone(), vals: data[i].vals.iter().zip(&a.vals).map(|(v, x)| v - x).collect(), comment: data[i].comment.clone() };
            let mut d2: Vec<&DataLine> = vec![];
            for (j, d) in refs.iter().enumerate() {
                if j == i {
                    d2.push(&a);
                } else {
                    d2.push(d);
                }
            }
            d2.push(&b);
            try_text(render(&other, &d2, &keep), "split", out);
            out.regime("split");
            // ... an output line written as a gross figure and a correction of the opposite sign (outputs may be negative)
            if data[i].tags.iter().any(|t| t == "SALIDA") {
                let a = DataLine { id: data[i].id, tags: data[i].tags.clone(), vals: data[i].vals.iter().map(|v| v * 2.0).collect(), comment: data[i].comment.clone() };
                let b = DataLine { id: data[i].id, tags: data[i].tags.clone(), vals: data[i].vals.iter().map(|v| -v).collect(), comment: data[i].comment.clone() };
                let mut d2: Vec<&DataLine> = vec![];
                for (j, d) in refs.iter().enumerate() {
                    if j == i {
                        d2.push(&a);
                    } else {
                        d2.push(d);
                    }
                }
                d2.push(&b);
                try_text(render(&other, &d2, &keep), "split_gross_and_correction", out);
            }
            // ... and split by time: the first steps in one line, the remaining steps in the other (a seasonal split)
            if data[i].vals.len() >= 2 {
                let h = data[i].vals.len() / 2;
                let a = DataLine { id: data[i].id, tags: data[i].tags.clone(), vals: data[i].vals.iter().enumerate().map(|(t, v)| if t < h { *v } else { 0.0 }).collect(), comment: data[i].comment.clone() };
                let b = DataLine { id: data[i].id, tags: data[i].tags.clone(), vals: data[i].vals.iter().enumerate().map(|(t, v)| if t < h { 0.0 } else { *v }).collect(), comment: data[i].comment.clone() };
                if a.vals.iter().any(|v| *v != 0.0) && b.vals.iter().any(|v| *v != 0.0) {
                    let mut d2: Vec<&DataLine> = vec![];
                    for (j, d) in refs.iter().enumerate() {
                        if j == i {
                            d2.push(&a);
                        } else {
                            d2.push(d);
                        }
                    }
                    d2.push(&b);
                    try_text(render(&other, &d2, &keep), "split_by_time", out);
                }
            }
            if n > 6 && i >= 2 {
                break;
            }
        }
        // 3. consistent renumbering of system ids (legacy lines without id are system 0)
        let ids: BTreeSet<i32> = data.iter().filter(|d| d.tags[0] != "DEMANDA").map(|d| d.id.unwrap_or(0)).collect();
        let targets = [0, 1, 2, 12, -3];
        let idv: Vec<i32> = ids.iter().copied().collect();
        let mut maps: Vec<Vec<i32>> = vec![vec![]];
        for _ in 0..idv.len() {
            let mut nx = vec![];
            for m in &maps {
                for t in targets {
                    if !m.contains(&t) {
                        let mut m2 = m.clone();
                        m2.push(t);
                        nx.push(m2);
                    }
                }
            }
            maps = nx;
        }
        if idv.len() > 2 {
            maps = maps.into_iter().step_by(7).collect();
        }
        if self.light {
            maps.clear();
        }
        for m in maps.iter().filter(|m| **m != idv) {
            let f = |d: &DataLine| -> Option<i32> {
                if d.tags[0] == "DEMANDA" {
                    return None;
                }
                let old = d.id.unwrap_or(0);
                let new = m[idv.iter().position(|x| *x == old).unwrap()];
                if d.id.is_none() && new == 0 {
                    None
                } else {
                    Some(new)
                }
            };
            try_text(render(&other, &refs, &f), "renumber", out);
            out.regime("renumber");
        }
        // 4. id 0 written explicitly or omitted (kinds that have a legacy form)
        if !self.light && data.iter().any(|d| d.id.unwrap_or(0) == 0 && matches!(d.tags[0].as_str(), "CONSUMO" | "PRODUCCION" | "AUX")) {
            let f = |d: &DataLine| -> Option<i32> {
                match (d.tags[0].as_str(), d.id) {
                    ("CONSUMO" | "PRODUCCION" | "AUX", Some(0)) => None,
                    ("CONSUMO" | "PRODUCCION" | "AUX", None) => Some(0),
                    (_, i) => i,
                }
            };
            try_text(render(&other, &refs, &f), "id0", out);
            out.regime("id0");
        }
        // 5. decorations
        let body = render(&other, &refs, &keep);
        let decos: Vec<(&str, String)> = vec![
            ("decoration:bom", format!("\u{feff}{body}")),
            ("decoration:header", format!("vector,tipo,src_dst\n{body}")),
            ("decoration:blank_lines", format!("\n\n{}\n\n", body.replace('\n', "\n\n"))),
            ("decoration:comment_lines", format!("# comentario\n{}# fin", body.replace('\n', "\n# x, CONSUMO, ILU, ELECTRICIDAD, 99\n"))),
            ("decoration:trailing_comments", body.lines().map(|l| if l.contains('#') || l.trim().is_empty() { format!("{l}\n") } else { format!("{l} # nota, con comas, 1, 2\n") }).collect()),
            // comments that look like the program's own notes (its balancing note, its auxiliary reassignment note, the low-SCOP tag is
            // NOT one of them: that one is documented to change the DHW indicator)
            ("decoration:program_like_comments", body.lines().map(|l| if l.contains('#') || l.trim().is_empty() || l.contains("DEMANDA") { format!("{l}\n") } else if l.contains("PRODUCCION") { format!("{l} # Equilibrado de consumo sin producción declarada\n") } else { format!("{l} # Reasignación automática de consumos auxiliares\n") }).collect()),
            ("decoration:whitespace", body.lines().map(|l| if l.trim_start().starts_with('#') { format!("  \t{l} \t \n") } else { format!("  \t{} \t \n", l.replace(", ", " ,\t ")) }).collect()),
            ("decoration:crlf", body.replace('\n', "\r\n")),
            ("decoration:bom+header+crlf", format!("\u{feff}vector,tipo,src_dst\r\n{}", body.replace('\n', "\r\n"))),
        ];
        for (name, t2) in decos {
            if self.light {
                break;
            }
            try_text(t2, name, out);
        }
        out.regime("decoration");
        // 6. repeated evaluation: every execution iterates the hash maps in another order
        let mut seen: BTreeMap<(String, Vec<String>), BTreeSet<Vec<String>>> = BTreeMap::new();
        let note = |e: &Exec, seen: &mut BTreeMap<(String, Vec<String>), BTreeSet<Vec<String>>>| {
            for (g, order) in &e.orders {
                if order.len() < 2 {
                    continue;
                }
                let mut set = order.clone();
                set.sort();
                seen.entry((g.clone(), set)).or_default().insert(order.clone());
            }
        };
        note(&base, &mut seen);
        let cap = sched_cap();
        let mut runs = 1;
        loop {
            let closed = seen.iter().all(|((_, set), orders)| orders.len() >= fact(set.len()).min(6));
            if (closed && runs >= 2) || runs >= cap {
                break;
            }
            runs += 1;
            match exec(text, out) {
                Ok(e) => {
                    note(&e, &mut seen);
                    if e.ncomp != base.ncomp {
                        out.viol("same_results", &["repeat"], "repeat", format!("{} components", e.ncomp), format!("{} components", base.ncomp));
                    }
                    compare(&base, &e, "repeat", &["repeat"], out);
                }
                Err(e) => out.viol("repeat_accepted", &["repeat"], "repeat", e, "evaluates like the first time"),
            }
        }
        SCHEDULES.fetch_add(runs as u64, Ordering::Relaxed);
        for ((_, set), orders) in &seen {
            SITES_SEEN.fetch_add(1, Ordering::Relaxed);
            if set.len() > 3 {
                SITES_BIG.fetch_add(1, Ordering::Relaxed);
            }
            if orders.len() >= fact(set.len()) {
                SITES_CLOSED.fetch_add(1, Ordering::Relaxed);
            }
            if set.len() >= 3 {
                out.regime("site_with_3_keys");
            }
        }
        if !seen.is_empty() {
            out.regime("hash_orders_observed");
        }
        // 7. another process: the real binary, twice free-running and under 8 getrandom-shim seeds
        if self.cli && crate::cli::available() {
            let mut reports: Vec<(String, String)> = vec![];
            for (name, seed) in [("free-running #1", None), ("free-running #2", None), ("seed 1", Some(1u64)), ("seed 2", Some(2)), ("seed 3", Some(3)), ("seed 4", Some(4)), ("seed 5", Some(5)), ("seed 6", Some(6)), ("seed 7", Some(7)), ("seed 8", Some(8))] {
                let o = crate::cli::run(&crate::cli::sv(&["-c", "@c.csv", "-l", "PENINSULA", "-k", "0.5", "--load_matching"]), &[("c.csv", text.as_bytes())], &[], seed, std::time::Duration::from_secs(10));
                out.evals += 1;
                if o.status != Some(0) {
                    reports.push((name.to_string(), format!("exit {:?}", o.status)));
                    continue;
                }
                let rep = o.stdout.split("** Eficiencia energética").nth(1).unwrap_or("").to_string();
                reports.push((name.to_string(), rep));
            }
            out.regime("cli_processes");
            // numbers with the tolerance of their printed precision (one unit of the last printed digit)
            let split = |s: &str| -> (String, Vec<(f64, f64)>) {
                let mut skel = String::new();
                let mut nums: Vec<(f64, f64)> = vec![];
                let mut cur = String::new();
                for ch in s.chars() {
                    if ch.is_ascii_digit() || ch == '.' || (ch == '-' && cur.is_empty()) {
                        cur.push(ch);
                    } else {
                        if let Ok(x) = cur.parse::<f64>() {
                            let dec = cur.split('.').nth(1).map(|d| d.len()).unwrap_or(0) as i32;
                            nums.push((x, 1.1 * 10f64.powi(-dec)));
                            skel.push('#');
                        } else {
                            skel.push_str(&cur);
                        }
                        cur.clear();
                        skel.push(ch);
                    }
                }
                (skel, nums)
            };
            let (s0, n0) = split(&reports[0].1);
            for (name, r) in &reports[1..] {
                out.compared += 1;
                let (s1, n1) = split(r);
                if s1 != s0 || n0.len() != n1.len() || n0.iter().zip(&n1).any(|(a, b)| (a.0 - b.0).abs() > a.1 + 1e-6 * a.0.abs()) {
                    let diff = n0.iter().zip(&n1).find(|(a, b)| (a.0 - b.0).abs() > a.1 + 1e-6 * a.0.abs()).map(|(a, b)| format!("{} vs {}", a.0, b.0)).unwrap_or_else(|| "report layout differs".into());
                    out.viol("same_results", &["process"], format!("another process ({name})"), diff, "the report of the first process");
                }
            }
        }
    }
}

pub fn aux_env_letters() -> Vec<Letter> {
    let mut al = vec![];
    for id in [1, 2] {
        al.push(Letter::many(vec![a(Some(id), &k(&[2, 2])), u(Some(id), "ACS", "GASNATURAL", &k(&[3, 1])), u(Some(id), "CAL", "GASNATURAL", &k(&[1, 3])), o(id, "ACS", &k(&[1, 1])), o(id, "CAL", &k(&[1, 3]))]));
        al.push(Letter::many(vec![a(Some(id), &k(&[1, 0])), u(Some(id), "ACS", "GASNATURAL", &k(&[3, 1]))]));
        al.push(Letter::one(u(Some(id), "ACS", "EAMBIENTE", &k(&[3, 1]))));
        al.push(Letter::one(u(Some(id), "CAL", "TERMOSOLAR", &k(&[1, 1]))));
        al.push(Letter::one(p(Some(id), "EAMBIENTE", &k(&[1, 3]))));
    }
    // a reversible heat pump with auxiliaries: heating delivered, cooling absorbed (negative output)
    al.push(Letter::many(vec![o(7, "REF", &[-300, -500]), o(7, "CAL", &k(&[3, 1])), a(Some(7), &k(&[2, 2])), u(Some(7), "CAL", "ELECTRICIDAD", &k(&[3, 1])), u(Some(7), "REF", "ELECTRICIDAD", &k(&[1, 3]))]));
    // heat recovery that delivers in one season what it absorbs in the other (the annual sum of the line is exactly zero)
    al.push(Letter::many(vec![o(11, "CAL", &[200, -200]), o(11, "ACS", &k(&[1, 3])), a(Some(11), &k(&[2, 2])), u(Some(11), "CAL", "ELECTRICIDAD", &k(&[3, 1])), u(Some(11), "ACS", "ELECTRICIDAD", &k(&[1, 1]))]));
    // one EPB service and a non-EPB use on the same system, with auxiliaries and the declared output
    al.push(Letter::many(vec![a(Some(8), &k(&[1, 1])), u(Some(8), "CAL", "GASNATURAL", &k(&[3, 1])), u(Some(8), "NEPB", "ELECTRICIDAD", &k(&[1, 1])), o(8, "CAL", &k(&[2, 1]))]));
    // a system whose declared production balances its use exactly, next to systems that need completion
    al.push(Letter::many(vec![u(Some(1), "CAL", "EAMBIENTE", &k(&[3, 1])), p(Some(1), "EAMBIENTE", &k(&[3, 1]))]));
    al.push(Letter::many(vec![u(Some(5), "ACS", "TERMOSOLAR", &k(&[1, 3])), p(Some(5), "TERMOSOLAR", &k(&[1, 3]))]));
    al.push(Letter::one(u(Some(6), "ACS", "TERMOSOLAR", &k(&[1, 1]))));
    al.push(Letter::one(a(None, &k(&[1, 1]))));
    al.push(Letter::many(vec![Line::M { key: "CTE_AREAREF", val: "50.5" }, Line::M { key: "CTE_LOCALIZACION", val: "CANARIAS" }, Line::Raw("#CTE_kexp: 0.5".into())]));
    al.push(Letter::one(u(None, "ILU", "ELECTRICIDAD", &k(&[3, 3]))));
    al.push(Letter::one(u(None, "ACS", "EAMBIENTE", &k(&[1, 0]))));
    al.push(Letter::one(p(None, "EL_INSITU", &k(&[1, 3]))));
    al.push(Letter::one(d("ACS", &k(&[4, 4]))));
    al.push(Letter::many(vec![d("ACS", &k(&[4, 4])), d("CAL", &k(&[3, 1])), d("REF", &k(&[1, 2]))]));
    al.push(Letter::one(u(Some(0), "CAL", "BIOMASA", &k(&[1, 1]))));
    al.push(Letter::one(u(Some(3), "REF", "RED1", &k(&[1, 1]))));
    // DHW from a biomass boiler that declares its output, beside a gas boiler (the DHW indicator uses the output)
    al.push(Letter::many(vec![u(Some(9), "ACS", "BIOMASA", &k(&[4, 2])), o(9, "ACS", &k(&[3, 1])), u(Some(10), "ACS", "GASNATURAL", &k(&[1, 1]))]));
    // a second nearby carrier for DHW (with the ambient heat letters: more nearby supply than the demand letter declares)
    al.push(Letter::one(u(Some(3), "ACS", "RED1", &k(&[3, 3]))));
    al.push(Letter::many(vec![p(Some(4), "EL_COGEN", &k(&[3, 3])), u(Some(4), "COGEN", "GASNATURAL", &k(&[3, 3])), u(Some(4), "COGEN", "BIOMASA", &k(&[3, 1])), u(Some(4), "COGEN", "RED1", &k(&[1, 1]))]));
    al
}

pub fn run(ctx: &Ctx) -> i32 {
    let shared = Shared::new("C10", ctx);
    let d = if ctx.quick() { 2 } else { 3 };
    explore(ctx, &format!("TEXT bases: FLOW T=2 depth<={d}"), Wide { alphabet: alpha::flow(2, &[0, 100, 300], Rich::Base), bases: alpha::bases(false), max_add: d, repeat: false }, FULL, shared.clone());
    // reduced vector set, one level deeper (PV + CHP + uses in one building)
    let reduced: Vec<Letter> = alpha::flow(2, &[100, 300], Rich::Base);
    explore(ctx, &format!("TEXT bases: FLOW T=2 values {{1,3}} depth<={}", d + 1), Wide { alphabet: reduced, bases: alpha::bases(false), max_add: d + 1, repeat: false }, FULL, shared.clone());
    explore(ctx, &format!("TEXT bases: AUX/ENV systems depth<={}", d + 1), Wide { alphabet: aux_env_letters(), bases: alpha::bases(false), max_add: d + 1, repeat: false }, FULL, shared.clone());
    // 'another process': the real binary on the small AUX/ENV bases and on the shipped files
    {
        let n = if ctx.quick() { 8 } else { 12 };
        explore(ctx, &format!("COMBO: complete 12-step buildings, {n} subsystems absent/present"), Layered { slots: alpha::combo_slots(n), bases: alpha::bases(false) }, FULL, shared.clone());
    }
    explore(ctx, "VOCAB: every (service, carrier) pair / cogeneration fuel / production source added to a small building", Wide { alphabet: alpha::vocab_letters(), bases: alpha::vocab_base(), max_add: if ctx.quick() { 1 } else { 2 }, repeat: false }, FULL, shared.clone());
    explore(ctx, "TEXT bases as other processes (CLI x 10 runs): AUX/ENV systems depth<=2", Wide { alphabet: aux_env_letters(), bases: alpha::bases(false), max_add: if ctx.quick() { 1 } else { 2 }, repeat: false }, FULL_CLI, shared.clone());
    explore(ctx, "TEXT bases: shipped files + <=1 line", Wide { alphabet: alpha::seeded_letters(), bases: alpha::shipped_bases(), max_add: if ctx.quick() { 0 } else { 1 }, repeat: false }, FULL_CLI, shared.clone());
    let (sch, seen, closed, big) = (SCHEDULES.load(Ordering::Relaxed), SITES_SEEN.load(Ordering::Relaxed), SITES_CLOSED.load(Ordering::Relaxed), SITES_BIG.load(Ordering::Relaxed));
    finish(
        ctx,
        &shared,
        &FULL_CLI,
        Finish {
            level: "model_checking",
            rule: "every base file (FLOW, AUX/ENV systems, shipped) x {all line permutations (<= 4 lines; else reversal + 2 rotations), split of each line in two, injective renumberings of the ids into {0,1,2,12,-3}, id 0 written/omitted, 8 decorations (BOM, header, blank lines, comment lines, trailing comments, whitespace, CRLF, combination)} x repeated evaluation under successive recorded hash keys until every hooked iteration site with n <= 3 keys has been seen in all n! orders (cap per state); non-trivial = base with >= 2 lines".into(),
            assumptions: strs(&[
                "results compared with 2e-5*magnitude+1e-6 (+1e-5 relative): rewritings change summation order",
                "closure claim only for the six hooked sites; other hash loops see the same schedules without a closure claim",
                "'another process': the real binary, twice free-running and under 8 getrandom-shim seeds, on the small AUX/ENV bases and the shipped files",
            ]),
            required_regimes: strs(&["reorder", "split", "renumber", "id0", "decoration", "hash_orders_observed", "site_with_3_keys", "cli_processes"]),
            extra: serde_json::json!({"hash_order_schedules_executed": sch, "site_instances_observed(>=2 keys)": seen, "site_instances_closed(all n! orders)": closed, "site_instances_with_more_than_3_keys": big, "schedule_cap_per_state": sched_cap()}),
        },
    )
}

pub fn replay(path: &str) -> i32 {
    replay_file("C10", &FULL_CLI, path)
}
