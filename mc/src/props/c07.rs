//! C07 Preparing weighting factors: complete, respectful of user values, idempotent.

use std::collections::{BTreeMap, BTreeSet};

use cteepbd::types::RenNrenCo2;
use cteepbd::{cte, Factors, UserWF};

use super::strs;
use crate::core::*;
use crate::model::*;
use crate::subj;

#[derive(Clone, Copy)]
pub struct C07;

type Key = (String, String, String, String);

fn read_file(text: &str) -> Vec<(Key, [f64; 3])> {
    let mut v = vec![];
    for l in text.lines() {
        let l = l.trim();
        if l.is_empty() || l.starts_with('#') || l.starts_with("vector,") {
            continue;
        }
        let body = l.split('#').next().unwrap();
        let t: Vec<&str> = body.split(',').map(|s| s.trim()).collect();
        if t.len() < 7 {
            continue;
        }
        let f = |s: &str| s.parse::<f32>().map(|x| x as f64).unwrap_or(f64::NAN);
        v.push(((t[0].into(), t[1].into(), t[2].into(), t[3].into()), [f(t[4]), f(t[5]), f(t[6])]));
    }
    v
}

fn find(f: &Factors, k: &Key) -> Option<[f64; 3]> {
    f.wdata
        .iter()
        .find(|w| format!("{}", w.carrier) == k.0 && format!("{}", w.source) == k.1 && format!("{}", w.dest) == k.2 && format!("{}", w.step) == k.3)
        .map(|w| [w.ren as f64, w.nren as f64, w.co2 as f64])
}

fn key(c: &str, s: &str, d: &str, st: &str) -> Key {
    (c.into(), s.into(), d.into(), st.into())
}

fn forced(k: &Key) -> bool {
    k.2 == "SUMINISTRO" && k.3 == "A" && ((k.0 == "EAMBIENTE" || k.0 == "TERMOSOLAR") && (k.1 == "INSITU" || k.1 == "RED") || (k.0 == "ELECTRICIDAD" && k.1 == "INSITU"))
}

fn eq3(a: [f64; 3], b: [f64; 3]) -> bool {
    (0..3).all(|i| (a[i] - b[i]).abs() <= 1e-6)
}

const USER1: (f32, f32, f32) = (0.125, 0.75, 0.0625);
// a waste-heat network: no primary energy at all, some emissions (ren + nren = 0 is a legitimate user value)
const USER2: (f32, f32, f32) = (0.0, 0.0, 0.5);
const DEFAULT: [f64; 3] = [0.0, 1.3, 0.3];

/// covering family: each building reaches one kind of factor lookup, over the carriers of the set
fn covering(carriers: &BTreeSet<String>) -> Vec<String> {
    let mut b = vec![];
    let thermal: Vec<&String> = carriers.iter().filter(|c| !matches!(c.as_str(), "ELECTRICIDAD" | "EAMBIENTE" | "TERMOSOLAR")).collect();
    for c in carriers {
        b.push(format!("CONSUMO, ILU, {c}, 5, 1\n"));
        b.push(format!("CONSUMO, NEPB, {c}, 2, 2\n"));
    }
    if carriers.contains("ELECTRICIDAD") {
        let el = "CONSUMO, ILU, ELECTRICIDAD, 1, 4\n";
        b.push(format!("{el}PRODUCCION, EL_INSITU, 3, 1\n"));
        b.push(format!("{el}PRODUCCION, EL_INSITU, 3, 1\nCONSUMO, NEPB, ELECTRICIDAD, 1, 0\n"));
        b.push(format!("{el}PRODUCCION, EL_INSITU, 3, 1\nCONSUMO, NEPB, ELECTRICIDAD, 9, 9\n"));
        b.push("PRODUCCION, EL_INSITU, 3, 1\n".to_string());
        // a declared source that produces nothing next to one that exports
        b.push(format!("{el}PRODUCCION, EL_INSITU, 3, 9\n2, PRODUCCION, EL_COGEN, 0, 0\n2, CONSUMO, COGEN, {}, 0, 0\n", thermal.first().map(|s| s.as_str()).unwrap_or("ELECTRICIDAD")));
        b.push(format!("{el}PRODUCCION, EL_INSITU, 0, 0\n"));
        for f in &thermal {
            let chp = format!("PRODUCCION, EL_COGEN, 3, 1\nCONSUMO, COGEN, {f}, 6, 2\n");
            b.push(format!("{el}{chp}"));
            b.push(format!("{el}{chp}CONSUMO, NEPB, ELECTRICIDAD, 1, 0\n"));
            b.push(format!("{el}{chp}CONSUMO, NEPB, ELECTRICIDAD, 9, 9\n"));
            b.push(format!("{el}{chp}PRODUCCION, EL_INSITU, 2, 2\nCONSUMO, NEPB, ELECTRICIDAD, 1, 1\n"));
            b.push(chp);
        }
    }
    for c in ["EAMBIENTE", "TERMOSOLAR"] {
        if carriers.contains(c) {
            b.push(format!("1, CONSUMO, ACS, {c}, 1, 1\n1, PRODUCCION, {c}, 3, 0\n"));
            b.push(format!("1, CONSUMO, ACS, {c}, 1, 1\n1, PRODUCCION, {c}, 3, 0\nCONSUMO, NEPB, {c}, 1, 0\n"));
            b.push(format!("1, CONSUMO, ACS, {c}, 1, 1\n1, PRODUCCION, {c}, 3, 0\nCONSUMO, NEPB, {c}, 9, 9\n"));
            b.push(format!("1, PRODUCCION, {c}, 3, 0\n"));
        }
    }
    b
}

fn check_prepared(src_lines: &[(Key, [f64; 3])], prepared: &Factors, u1: bool, u2: bool, cfg: &str, out: &mut Out) {
    // (a) user values survive, forced families are (1,0,0)
    let mut first: BTreeMap<Key, [f64; 3]> = BTreeMap::new();
    for (k, v) in src_lines {
        first.entry(k.clone()).or_insert(*v);
    }
    for (k, v) in &first {
        out.compared += 1;
        let got = find(prepared, k);
        let is_user_red = k.1 == "RED" && k.2 == "SUMINISTRO" && k.3 == "A" && ((k.0 == "RED1" && u1) || (k.0 == "RED2" && u2));
        let exp = if forced(k) {
            [1.0, 0.0, 0.0]
        } else if is_user_red {
            let u = if k.0 == "RED1" { USER1 } else { USER2 };
            [u.0 as f64, u.1 as f64, u.2 as f64]
        } else {
            *v
        };
        match got {
            Some(g) if eq3(g, exp) => {}
            g => {
                let clause = if forced(k) { "forced_factor_is_1_0_0" } else if is_user_red { "user_red_beats_file" } else { "user_supplied_factor_unchanged" };
                out.viol(clause, &[], cfg, format!("{k:?} = {g:?}"), format!("{exp:?}"));
            }
        }
    }
    // forced families exist (the electricity ones only when the set has electricity at all)
    let el_present = prepared.wdata.iter().any(|w| format!("{}", w.carrier) == "ELECTRICIDAD");
    for (c, s) in [("EAMBIENTE", "INSITU"), ("EAMBIENTE", "RED"), ("TERMOSOLAR", "INSITU"), ("TERMOSOLAR", "RED"), ("ELECTRICIDAD", "INSITU")] {
        let k = key(c, s, "SUMINISTRO", "A");
        if c == "ELECTRICIDAD" && !el_present {
            continue;
        }
        match find(prepared, &k) {
            Some(g) if eq3(g, [1.0, 0.0, 0.0]) => {}
            g => out.viol("forced_factor_is_1_0_0", &[], cfg, format!("{k:?} = {g:?}"), "[1,0,0]"),
        }
    }
    // (b) defaults of export factors
    for c in ["ELECTRICIDAD", "EAMBIENTE", "TERMOSOLAR"] {
        if c == "ELECTRICIDAD" && !el_present {
            continue;
        }
        let grid = find(prepared, &key(c, "RED", "SUMINISTRO", "A"));
        for d in ["A_RED", "A_NEPB"] {
            for (st, default) in [("A", Some([1.0, 0.0, 0.0])), ("B", grid)] {
                let k = key(c, "INSITU", d, st);
                out.compared += 1;
                let exp = first.get(&k).copied().or(default);
                match (find(prepared, &k), exp) {
                    (Some(g), Some(e)) if eq3(g, e) => {
                        if !first.contains_key(&k) {
                            out.regime(format!("default_step_{st}"));
                        }
                    }
                    (g, e) => out.viol(if st == "A" { "step_a_export_defaults_to_onsite_supply" } else { "step_b_export_defaults_to_grid_supply" }, &[], cfg, format!("{k:?} = {g:?}"), format!("{e:?}")),
                }
            }
        }
    }
    // (c) RED1 / RED2: user > file > default
    for (c, given, user) in [("RED1", u1, USER1), ("RED2", u2, USER2)] {
        let k = key(c, "RED", "SUMINISTRO", "A");
        let exp = if given { [user.0 as f64, user.1 as f64, user.2 as f64] } else { first.get(&k).copied().unwrap_or(DEFAULT) };
        out.compared += 1;
        let which = if given { "user" } else if first.contains_key(&k) { "file" } else { "default" };
        out.regime(format!("red_from_{which}"));
        match find(prepared, &k) {
            Some(g) if eq3(g, exp) => {}
            g => out.viol("red1_red2_precedence", &[which], cfg, format!("{k:?} = {g:?}"), format!("{which} value {exp:?}")),
        }
    }
    // (d) preparing again changes nothing
    out.compared += 1;
    match prepared.clone().normalize(&cte::CTE_USERWF) {
        Ok(again) => {
            let a: Vec<String> = prepared.wdata.iter().map(|w| format!("{w:?}")).collect();
            let b: Vec<String> = again.wdata.iter().map(|w| format!("{w:?}")).collect();
            if a != b {
                let da: Vec<_> = b.iter().filter(|x| !a.contains(x)).take(3).cloned().collect();
                out.viol("preparing_twice_is_identity", &[], cfg, format!("second preparation differs: {da:?} ({} vs {} factors)", b.len(), a.len()), "identical set");
            }
        }
        Err(e) => out.viol("preparing_twice_is_identity", &[], cfg, format!("second preparation fails: {e}"), "Ok"),
    }
    // also through the text format with the same user options
    // (f) completeness over the carriers of the set
    let carriers: BTreeSet<String> = prepared.wdata.iter().map(|w| format!("{}", w.carrier)).collect();
    for b in covering(&carriers) {
        let Ok(c) = subj::parse(&b) else { continue };
        out.evals += 1;
        for k in [0.0f32, 1.0] {
            if let Err(e) = subj::eval(&c, prepared, k, 1.0, false) {
                if matches!(e, subj::EpbdError::MissingFactor(_)) {
                    out.viol("complete_for_every_building_over_its_carriers", &[], cfg, format!("{e} for building `{}`", b.trim().replace('\n', " | ")), "no missing-factor error");
                }
            }
        }
    }
}

impl StateCheck for C07 {
    fn check(&self, text: &str, _l: &[Line], out: &mut Out) {
        if let Some(p) = text.lines().find_map(|l| l.strip_prefix("#SEQ ")) {
            sequence(p.trim().parse().unwrap_or(0), out);
            return;
        }
        let loc = text.lines().find_map(|l| l.strip_prefix("#LOC ")).map(|s| s.trim().to_string());
        let src_lines = match &loc {
            Some(l) => cte::CTE_LOCWF_RITE2014.get(l.as_str()).map(|f| f.wdata.iter().map(|w| ((format!("{}", w.carrier), format!("{}", w.source), format!("{}", w.dest), format!("{}", w.step)), [w.ren as f64, w.nren as f64, w.co2 as f64])).collect()).unwrap_or_default(),
            None => read_file(text),
        };
        // reference acceptance rule: electricity has a grid supply factor, and so has every carrier of the file
        // (ambient heat and solar thermal get theirs from the method)
        let carriers: BTreeSet<&String> = src_lines.iter().map(|(k, _)| &k.0).collect();
        let has_grid = |c: &str| src_lines.iter().any(|(k, _)| k.0 == c && k.1 == "RED" && k.2 == "SUMINISTRO" && k.3 == "A");
        let usable = has_grid("ELECTRICIDAD") && carriers.iter().all(|c| c.as_str() == "EAMBIENTE" || c.as_str() == "TERMOSOLAR" || has_grid(c));
        for (u1, u2) in [(false, false), (true, false), (false, true), (true, true)] {
            let user = UserWF { red1: if u1 { Some(RenNrenCo2::from(USER1)) } else { None }, red2: if u2 { Some(RenNrenCo2::from(USER2)) } else { None } };
            let cfg = format!("user_red1={u1} user_red2={u2}{}", loc.as_ref().map(|l| format!(" loc={l}")).unwrap_or_default());
            out.evals += 1;
            let r = match &loc {
                Some(l) => cte::wfactors_from_loc(l, &cte::CTE_LOCWF_RITE2014, user, cte::CTE_USERWF),
                None => cte::wfactors_from_str(text, user, cte::CTE_USERWF),
            };
            // user RED1/RED2 given => that carrier has a grid factor
            let others_ok = carriers.iter().all(|c| c.as_str() == "EAMBIENTE" || c.as_str() == "TERMOSOLAR" || has_grid(c) || (c.as_str() == "RED1" && u1) || (c.as_str() == "RED2" && u2));
            // a set that does not mention electricity at all: the statement is silent, both outcomes are admitted
            let el_absent = !carriers.iter().any(|c| c.as_str() == "ELECTRICIDAD");
            let usable_u = others_ok;
            let must_accept = others_ok && !el_absent;
            let _ = usable;
            out.compared += 1;
            match r {
                Ok(f) => {
                    out.nontrivial = true;
                    out.regime("accepted");
                    if !usable_u {
                        out.viol("unusable_set_rejected", &[], &cfg, "accepted", "Err: a carrier of the file (or electricity) has no RED, SUMINISTRO, A factor");
                    }
                    check_prepared(&src_lines, &f, u1, u2, &cfg, out);
                }
                Err(e) => {
                    out.typed_errors += 1;
                    out.regime("rejected");
                    if must_accept {
                        out.viol("usable_set_accepted", &[], &cfg, format!("Err: {e}"), "Ok: every carrier has its grid supply factor");
                    }
                }
            }
        }
    }
}

fn menu() -> Vec<Letter> {
    menu_v(false)
}

/// `near`: the lines of the forced families carry values within 5e-4 of (1, 0, 0) and the RED1 / RED2 lines values within 5e-4
/// of the user's, so that "close enough, not updated" shows (factors are copied, never computed: the oracle compares at 1e-6)
fn menu_v(near: bool) -> Vec<Letter> {
    let lines: [(&str, &str, &str, &str); 27] = [
        ("ELECTRICIDAD", "INSITU", "SUMINISTRO", "A"),
        ("ELECTRICIDAD", "INSITU", "A_RED", "A"),
        ("ELECTRICIDAD", "INSITU", "A_RED", "B"),
        ("ELECTRICIDAD", "INSITU", "A_NEPB", "A"),
        ("ELECTRICIDAD", "INSITU", "A_NEPB", "B"),
        ("ELECTRICIDAD", "COGEN", "A_RED", "A"),
        ("ELECTRICIDAD", "COGEN", "A_RED", "B"),
        ("ELECTRICIDAD", "COGEN", "A_NEPB", "A"),
        ("ELECTRICIDAD", "COGEN", "A_NEPB", "B"),
        ("GASNATURAL", "RED", "SUMINISTRO", "A"),
        ("GASNATURAL", "RED", "SUMINISTRO", "B"),
        ("RED1", "RED", "SUMINISTRO", "A"),
        ("RED2", "RED", "SUMINISTRO", "A"),
        ("EAMBIENTE", "RED", "SUMINISTRO", "A"),
        ("EAMBIENTE", "INSITU", "SUMINISTRO", "A"),
        ("EAMBIENTE", "INSITU", "A_RED", "A"),
        ("EAMBIENTE", "INSITU", "A_RED", "B"),
        ("EAMBIENTE", "INSITU", "A_NEPB", "A"),
        ("EAMBIENTE", "INSITU", "A_NEPB", "B"),
        ("TERMOSOLAR", "INSITU", "A_RED", "B"),
        ("TERMOSOLAR", "INSITU", "A_NEPB", "A"),
        ("TERMOSOLAR", "RED", "SUMINISTRO", "A"),
        ("BIOMASA", "RED", "SUMINISTRO", "A"),
        ("BIOMASA", "INSITU", "SUMINISTRO", "A"),
        ("RED1", "INSITU", "A_RED", "A"),
        ("ELECTRICIDAD", "RED", "SUMINISTRO", "B"),
        ("GASOLEO", "RED", "A_RED", "A"),
    ];
    lines
        .iter()
        .enumerate()
        .map(|(j, (c, s, d, st))| {
            let j = j as u32 + 1;
            let k = key(c, s, d, st);
            if near && forced(&k) {
                return Letter::one(Line::Raw(format!("{c}, {s}, {d}, {st}, 0.9995, 0.0005, 0.0004")));
            }
            if near && (*c == "RED1" || *c == "RED2") && *s == "RED" && *d == "SUMINISTRO" && *st == "A" {
                let u = if *c == "RED1" { USER1 } else { USER2 };
                return Letter::one(Line::Raw(format!("{c}, {s}, {d}, {st}, {}, {}, {}", u.0 + 0.0004, u.1 + 0.0003, u.2 + 0.0005)));
            }
            Letter::one(Line::Raw(format!("{c}, {s}, {d}, {st}, {}, {}, {}", (j * 3 + 1) as f32 / 8.0, (j * 5 + 2) as f32 / 16.0, (j * 7 + 3) as f32 / 32.0)))
        })
        .collect()
}

/// Child process: the user-option combinations are applied, for every location and for a user file, in the
/// `perm`-th order as the FIRST library calls of a fresh process (nothing has been prepared before), so that
/// anything remembered between calls shows. Prints one line per violation.
pub fn seq_child() -> i32 {
    let perm_idx: usize = std::env::var("VERIF_C07_PERM").ok().and_then(|s| s.parse().ok()).unwrap_or(0);
    let combos = [(false, false), (true, false), (false, true), (true, true)];
    let perm = &crate::cmp::permutations(4)[perm_idx % 24];
    let mut out = Out::default();
    let file = "ELECTRICIDAD, RED, SUMINISTRO, A, 0.5, 2.0, 0.42\nRED1, RED, SUMINISTRO, A, 0.3, 0.9, 0.1\nGASNATURAL, RED, SUMINISTRO, A, 0.0, 1.1, 0.22\n";
    for loc in subj::LOCS.iter().map(|l| Some(*l)).chain([None]) {
        let src_lines: Vec<(Key, [f64; 3])> = match loc {
            Some(l) => cte::CTE_LOCWF_RITE2014.get(l).map(|f| f.wdata.iter().map(|w| ((format!("{}", w.carrier), format!("{}", w.source), format!("{}", w.dest), format!("{}", w.step)), [w.ren as f64, w.nren as f64, w.co2 as f64])).collect()).unwrap_or_default(),
            None => read_file(file),
        };
        for &i in perm {
            let (u1, u2) = combos[i];
            let user = UserWF { red1: if u1 { Some(RenNrenCo2::from(USER1)) } else { None }, red2: if u2 { Some(RenNrenCo2::from(USER2)) } else { None } };
            let cfg = format!("sequence {perm:?} call user_red1={u1} user_red2={u2} {}", loc.map(|l| format!("loc={l}")).unwrap_or_else(|| "user file".into()));
            let r = match loc {
                Some(l) => cte::wfactors_from_loc(l, &cte::CTE_LOCWF_RITE2014, user, cte::CTE_USERWF),
                None => cte::wfactors_from_str(file, user, cte::CTE_USERWF),
            };
            match r {
                Ok(f) => check_prepared(&src_lines, &f, u1, u2, &cfg, &mut out),
                Err(e) => out.viol("usable_set_accepted", &[], &cfg, format!("{e}"), "Ok"),
            }
        }
    }
    for v in &out.viols {
        println!("SEQVIOL\t{}\t{}\t{}\t{}", v.clause, v.config.replace(['\t', '\n'], " "), v.observed.replace(['\t', '\n'], " "), v.expected.replace(['\t', '\n'], " "));
    }
    println!("SEQDONE\t{}", out.compared);
    0
}

/// one order of the four user-option combinations, in a fresh process
fn sequence(p: usize, out: &mut Out) {
    let exe = std::env::current_exe().expect("current exe");
    let r = std::process::Command::new(&exe).arg("C07SEQ").env("VERIF_C07_PERM", p.to_string()).output();
    out.evals += 1;
    out.nontrivial = true;
    match r {
        Ok(o) => {
            let so = String::from_utf8_lossy(&o.stdout);
            let mut done = false;
            for l in so.lines() {
                let f: Vec<&str> = l.split('\t').collect();
                if f[0] == "SEQVIOL" && f.len() >= 5 {
                    out.viol(&format!("sequence:{}", f[1]), &["call_sequence"], f[2], f[3], f[4]);
                }
                if f[0] == "SEQDONE" {
                    done = true;
                    out.compared += f.get(1).and_then(|x| x.parse::<u64>().ok()).unwrap_or(0);
                }
            }
            if !done {
                out.viol("sequence:child_failed", &["call_sequence"], format!("permutation {p}"), format!("child exit {:?}: {}", o.status.code(), String::from_utf8_lossy(&o.stderr).chars().take(200).collect::<String>()), "SEQDONE");
            }
        }
        Err(e) => out.viol("sequence:child_failed", &["call_sequence"], format!("permutation {p}"), format!("{e}"), "child process"),
    }
    out.regime("call_sequences");
}

pub fn run(ctx: &Ctx) -> i32 {
    let shared = Shared::new("C07", ctx);
    // histories: every order of the four user-option combinations, each as the first calls of a fresh process
    let seqs: Vec<Letter> = (0..24).map(|p| Letter::one(Line::Raw(format!("#SEQ {p}")))).collect();
    explore(ctx, "call sequences: 24 orders of the user-option combinations x (4 locations + a user file), each in a fresh process", Layered { slots: vec![seqs], bases: vec![("fresh process".to_string(), String::new())] }, C07, shared.clone());
    let bases = vec![("empty".to_string(), String::new()), ("EL grid".to_string(), "ELECTRICIDAD, RED, SUMINISTRO, A, 0.5, 2.0, 0.42\n".to_string())];
    let depth = if ctx.quick() { 5 } else { 7 };
    explore(ctx, &format!("FACT: subsets of a 27-line menu, <= {depth} lines, from {{empty, EL grid}}"), Wide { alphabet: menu(), bases, max_add: depth, repeat: false }, C07, shared.clone());
    explore(ctx, "FACT near: the same menu with file values within 5e-4 of the forced / user values, <= 3 lines", Wide { alphabet: menu_v(true), bases: vec![("empty".to_string(), String::new()), ("EL grid".to_string(), "ELECTRICIDAD, RED, SUMINISTRO, A, 0.5, 2.0, 0.42\n".to_string())], max_add: if ctx.quick() { 3 } else { 4 }, repeat: false }, C07, shared.clone());
    let locs: Vec<(String, String)> = subj::LOCS.iter().map(|l| (format!("loc:{l}"), format!("#LOC {l}\n"))).collect();
    explore(ctx, "four regulatory locations", Wide { alphabet: vec![], bases: locs, max_add: 0, repeat: false }, C07, shared.clone());
    let shipped: Vec<(String, String)> = subj::shipped_factor_files();
    explore(ctx, "shipped factor files + <= 2 menu lines", Wide { alphabet: menu(), bases: shipped, max_add: 2, repeat: false }, C07, shared.clone());
    finish(
        ctx,
        &shared,
        &C07,
        Finish {
            level: "model_checking",
            rule: "FACT model: a state is a factor file = subset of a 27-line menu (every (source, destination, step) a user can write for EL/GAS/RED1/RED2/EAMBIENTE/TERMOSOLAR/BIOMASA, incl. lines that make a carrier unusable), each line with a unique marker triple, x user RED1/RED2 given or not (4); plus the 4 locations and the shipped factor files; every accepted set is evaluated on a covering family of buildings over its carriers; non-trivial = accepted set".into(),
            assumptions: strs(&["the first line of a file for a given (carrier, source, destination, step) is the user's value", "ambient heat and solar thermal grid factors are supplied by the method", "histories: all 24 orders of the four user-option combinations, per location and for a user file, each as the first calls of a fresh process", "covering family: one building per kind of factor lookup (grid use, PV/CHP/thermal surplus to grid and to non-EPB uses, each fuel)"]),
            required_regimes: strs(&["call_sequences", "accepted", "rejected", "default_step_A", "default_step_B", "red_from_user", "red_from_file", "red_from_default"]),
            extra: serde_json::json!({}),
        },
    )
}

pub fn replay(path: &str) -> i32 {
    replay_file("C07", &C07, path)
}
