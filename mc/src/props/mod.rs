pub mod c01;
pub mod c02;
pub mod c03;
pub mod c04;
pub mod c05;
pub mod c06;
pub mod c07;
pub mod c08;
pub mod c09;
pub mod c10;
pub mod c11;
pub mod c12;
pub mod c13;
pub mod c14;
pub mod c15;
pub mod c16;
pub mod c17;
pub mod c18;
pub mod c19;

use std::sync::Arc;

use crate::alpha::{self, Rich};
use crate::core::*;
use crate::model::*;

pub struct FlowSpec {
    pub quick_depth: usize,
    pub thorough_depth: usize,
    /// extra letters appended to the FLOW alphabet (T = 2)
    pub extra: Vec<Letter>,
    /// layered model; `heavy_oracle`: the oracle costs milliseconds per state, so the thorough layered model has 3 options per slot instead of 4
    pub deep: bool,
    pub heavy_oracle: bool,
    pub seeded: bool,
    /// explore T = 3 as well (thorough)
    pub t3: bool,
    /// explore decimal and large value sets (thorough)
    pub valuesets: bool,
}

/// The family of FLOW models shared by the balance properties.
pub fn flow_models<C: StateCheck + Copy>(ctx: &Ctx, shared: &Arc<Shared>, c: C, spec: FlowSpec) {
    let v = [0, 100, 300];
    let mk = |t: usize, vals: &[V], rich: Rich| -> Vec<Letter> {
        let mut a = alpha::flow(t, vals, rich);
        if t == 2 {
            a.extend(spec.extra.iter().cloned());
        }
        a
    };
    explore(ctx, "VOCAB: every (service, carrier) pair / cogeneration fuel / production source added to a small building, depth<=2", Wide { alphabet: alpha::vocab_letters(), bases: alpha::vocab_base(), max_add: if ctx.quick() { 1 } else { 2 }, repeat: false }, c, shared.clone());
    explore(ctx, "TINY: values around the absolute thresholds of the code (1e-3, 0.01 kWh), depth<=3", Wide { alphabet: alpha::tiny_letters(), bases: alpha::bases(false), max_add: if ctx.quick() { 3 } else { 4 }, repeat: false }, c, shared.clone());
    {
        // quick: 12 slots (4 096 buildings) for oracles that cost milliseconds, 14 (16 384) otherwise; thorough: all 16 (65 536)
        let n = if ctx.quick() { if spec.heavy_oracle { 12 } else { 14 } } else { 16 };
        explore(ctx, &format!("COMBO: complete 12-step buildings, {n} subsystems absent/present (designed production/use ratios, ties, five-digit values)"), Layered { slots: alpha::combo_slots(n), bases: alpha::bases(false) }, c, shared.clone());
    }
    explore(ctx, "RATIO: use 10 kWh under PV of 0.01 .. 10 000 kWh x cogenerator {3 sizes x gas, biomass} x non-EPB use {0, 5, 500}", Layered { slots: alpha::ratio_slots(), bases: alpha::bases(false) }, c, shared.clone());
    explore(ctx, "LONG: complete buildings with 13, 24, 31, 52, 365 and 8760 steps", Wide { alphabet: vec![], bases: alpha::long_bases(), max_add: 0, repeat: false }, c, shared.clone());
    if ctx.quick() && spec.heavy_oracle && spec.quick_depth >= 3 {
        // oracles that cost milliseconds per state: full vector set one level less deep, reduced vector set at full depth
        explore(ctx, &format!("FLOW wide T=2 {{0,1,3}} depth<={}", spec.quick_depth - 1), Wide { alphabet: mk(2, &v, Rich::Base), bases: alpha::bases(false), max_add: spec.quick_depth - 1, repeat: false }, c, shared.clone());
        explore(ctx, &format!("FLOW wide T=2 {{1,3}} depth<={}", spec.quick_depth), Wide { alphabet: mk(2, &[100, 300], Rich::Base), bases: alpha::bases(false), max_add: spec.quick_depth, repeat: false }, c, shared.clone());
    } else if ctx.quick() {
        explore(ctx, &format!("FLOW wide T=2 {{0,1,3}} depth<={}", spec.quick_depth), Wide { alphabet: mk(2, &v, Rich::Base), bases: alpha::bases(false), max_add: spec.quick_depth, repeat: false }, c, shared.clone());
    }
    if ctx.quick() {
        if spec.deep {
            let opts = vec![k(&[1, 0]), k(&[3, 1])];
            let mut slots = alpha::flow_slots(2, &opts, Rich::Base);
            if !spec.heavy_oracle {
                slots.push(alpha::second_pv_slot(&opts));
            }
            explore(ctx, &format!("FLOW deep {} slots x 3", slots.len()), Layered { slots, bases: alpha::bases(false) }, c, shared.clone());
        }
        if spec.seeded {
            explore(ctx, "seeded: shipped files + <=1 line", Wide { alphabet: alpha::seeded_letters(), bases: alpha::shipped_bases(), max_add: 1, repeat: false }, c, shared.clone());
        }
    } else {
        explore(ctx, &format!("FLOW wide T=2 {{0,1,3}} depth<={}", spec.thorough_depth), Wide { alphabet: mk(2, &v, Rich::Base), bases: alpha::bases(false), max_add: spec.thorough_depth, repeat: false }, c, shared.clone());
        explore(ctx, &format!("FLOW wide(rich, repeats) T=2 depth<={}", spec.thorough_depth.saturating_sub(1).max(2)), Wide { alphabet: mk(2, &v, Rich::Wide), bases: alpha::bases(false), max_add: spec.thorough_depth.saturating_sub(1).max(2), repeat: true }, c, shared.clone());
        if spec.t3 {
            explore(ctx, "FLOW wide T=3 {0,1,3} depth<=2", Wide { alphabet: mk(3, &v, Rich::Wide), bases: alpha::bases(false), max_add: 2, repeat: false }, c, shared.clone());
        }
        if spec.valuesets {
            explore(ctx, "FLOW wide T=2 decimal {0,0.01,33.33} depth<=3", Wide { alphabet: mk(2, &[0, 1, 3333], Rich::Base), bases: alpha::bases(false), max_add: 3, repeat: false }, c, shared.clone());
            explore(ctx, "FLOW wide T=2 large {0,1234.56,2^20} depth<=3", Wide { alphabet: mk(2, &[0, 123456, 100 << 20], Rich::Base), bases: alpha::bases(false), max_add: 3, repeat: false }, c, shared.clone());
        }
        if spec.deep {
            if spec.heavy_oracle {
                let opts = vec![k(&[1, 0]), k(&[3, 1])];
                explore(ctx, "FLOW deep 12 slots x 3", Layered { slots: alpha::flow_slots(2, &opts, Rich::Wide), bases: alpha::bases(false) }, c, shared.clone());
                let mut slots = alpha::flow_slots(2, &opts, Rich::Base);
                slots.push(alpha::second_pv_slot(&opts));
                explore(ctx, "FLOW deep 10 slots x 3 (with a second PV field after the cogenerator)", Layered { slots, bases: alpha::bases(false) }, c, shared.clone());
            } else {
                let opts = vec![k(&[1, 0]), k(&[0, 3]), k(&[3, 1])];
                explore(ctx, "FLOW deep 12 slots x 4", Layered { slots: alpha::flow_slots(2, &opts, Rich::Wide), bases: alpha::bases(false) }, c, shared.clone());
                let o2 = vec![k(&[1, 0]), k(&[3, 1])];
                let mut slots = alpha::flow_slots(2, &o2, Rich::Base);
                slots.push(alpha::second_pv_slot(&o2));
                explore(ctx, "FLOW deep 10 slots x 3 (with a second PV field after the cogenerator)", Layered { slots, bases: alpha::bases(false) }, c, shared.clone());
            }
        }
        if spec.seeded {
            explore(ctx, "seeded: shipped files + <=2 lines", Wide { alphabet: alpha::seeded_letters(), bases: alpha::shipped_bases(), max_add: 2, repeat: false }, c, shared.clone());
        }
    }
}

pub fn strs(v: &[&str]) -> Vec<String> {
    v.iter().map(|s| s.to_string()).collect()
}
