//! C18 Components and factors survive being written out and read back.

use std::collections::BTreeMap;
use std::time::Duration;

use cteepbd::types::{Energy, HasValues, MetaVec};
use cteepbd::{Components, Factors};

use super::strs;
use crate::alpha::{self, Rich};
use crate::cli;
use crate::cmp::{cmp_flat_rt, show};
use crate::core::*;
use crate::model::*;
use crate::subj;
use crate::tree::result_flat;

#[derive(Clone, Copy)]
pub struct C18 {
    pub cli: bool,
}

fn key(e: &Energy) -> String {
    match e {
        Energy::Used(u) => format!("CONSUMO {} {} {}", u.id, u.service, u.carrier),
        Energy::Prod(p) => format!("PRODUCCION {} {}", p.id, p.source),
        Energy::Aux(a) => format!("AUX {}", a.id),
        Energy::Out(o) => format!("SALIDA {} {}", o.id, o.service),
    }
}

fn all_centi(c: &Components) -> bool {
    let ok = |x: f32| ((x as f64 * 100.0).round() / 100.0 - x as f64).abs() < 1e-6 * (x.abs() as f64).max(1.0);
    c.data.iter().all(|e| e.values().iter().all(|x| ok(*x))) && [&c.needs.ACS, &c.needs.CAL, &c.needs.REF].iter().all(|n| n.as_ref().map(|v| v.iter().all(|x| ok(*x))).unwrap_or(true))
}

fn compare_components(a: &Components, b: &Components, cfg: &str, out: &mut Out) {
    out.compared += 1;
    // metadata
    let ma: Vec<(String, String)> = a.get_metavec().iter().map(|m| (m.key.clone(), m.value.clone())).collect();
    let mb: Vec<(String, String)> = b.get_metavec().iter().map(|m| (m.key.clone(), m.value.clone())).collect();
    if ma != mb {
        out.viol("same_metadata", &[], cfg, format!("{mb:?}"), format!("{ma:?}"));
    }
    // demands
    for (s, x, y) in [("ACS", &a.needs.ACS, &b.needs.ACS), ("CAL", &a.needs.CAL, &b.needs.CAL), ("REF", &a.needs.REF, &b.needs.REF)] {
        let ok = match (x, y) {
            (None, None) => true,
            (Some(x), Some(y)) => x.len() == y.len() && x.iter().zip(y).all(|(p, q)| (p - q).abs() as f64 <= 0.00501 + 1e-6 * p.abs() as f64),
            _ => false,
        };
        if !ok {
            out.viol("same_demands", &[], cfg, format!("{s}: read back {y:?}"), format!("{x:?}"));
        }
    }
    let strict = all_centi(a);
    if strict {
        out.regime("exact_values");
        // exact multiset of components (values at printed precision), comments included
        let canon = |c: &Components| -> Vec<String> {
            let mut v: Vec<String> = c.data.iter().map(|e| format!("{} [{}] #{}", key(e), e.values().iter().map(|x| format!("{:.2}", x)).collect::<Vec<_>>().join(","), e.comment())).collect();
            v.sort();
            v
        };
        let (ca, cb) = (canon(a), canon(b));
        if ca != cb {
            let da: Vec<_> = ca.iter().filter(|x| !cb.contains(x)).take(3).cloned().collect();
            let db: Vec<_> = cb.iter().filter(|x| !ca.contains(x)).take(3).cloned().collect();
            out.viol("same_components", &[], cfg, format!("read back has {db:?}"), format!("original has {da:?}"));
        }
    } else {
        out.regime("rounded_values");
        // aggregated per (kind, id, tags): sums within 0.005 x number of lines; every comment survives
        let agg = |c: &Components| -> BTreeMap<String, (Vec<f64>, usize)> {
            let mut m: BTreeMap<String, (Vec<f64>, usize)> = BTreeMap::new();
            for e in &c.data {
                let en = m.entry(key(e)).or_insert((vec![], 0));
                en.1 += 1;
                if en.0.len() < e.values().len() {
                    en.0.resize(e.values().len(), 0.0);
                }
                for (i, x) in e.values().iter().enumerate() {
                    en.0[i] += *x as f64;
                }
            }
            m
        };
        let (aa, ab) = (agg(a), agg(b));
        let nlines = a.data.len() as f64 + 1.0;
        for k in aa.keys().chain(ab.keys()).collect::<std::collections::BTreeSet<_>>() {
            let z = (vec![], 0);
            let (va, na) = aa.get(k).unwrap_or(&z);
            let (vb, _) = ab.get(k).unwrap_or(&z);
            let n = va.len().max(vb.len());
            let g = |v: &Vec<f64>, i: usize| v.get(i).copied().unwrap_or(0.0);
            let t = 0.00501 * ((*na).max(1) as f64 + if k.starts_with("PRODUCCION") || k.starts_with("AUX") { nlines } else { 0.0 });
            if !(0..n).all(|i| (g(va, i) - g(vb, i)).abs() <= t + 1e-6 * g(va, i).abs()) {
                out.viol("same_components", &[], cfg, format!("{k}: read back {vb:?}"), format!("{va:?} (printed precision)"));
            }
        }
        for e in &a.data {
            if !e.comment().is_empty() && !b.data.iter().any(|x| key(x) == key(e) && x.comment() == e.comment()) {
                out.viol("same_components", &[], cfg, format!("comment `{}` of {} lost", e.comment(), key(e)), "kept");
            }
        }
    }
}

fn compare_factors(a: &Factors, b: &Factors, cfg: &str, out: &mut Out) {
    out.compared += 1;
    let ma: Vec<(String, String)> = a.wmeta.iter().map(|m| (m.key.clone(), m.value.clone())).collect();
    let mb: Vec<(String, String)> = b.wmeta.iter().map(|m| (m.key.clone(), m.value.clone())).collect();
    if ma != mb {
        out.viol("same_factor_metadata", &[], cfg, format!("{mb:?}"), format!("{ma:?}"));
    }
    if a.wdata.len() != b.wdata.len() {
        out.viol("same_factors", &[], cfg, format!("{} factors", b.wdata.len()), format!("{}", a.wdata.len()));
        return;
    }
    for (x, y) in a.wdata.iter().zip(&b.wdata) {
        let same_tags = x.carrier == y.carrier && x.source == y.source && x.dest == y.dest && x.step == y.step && x.comment == y.comment;
        let close = [(x.ren, y.ren), (x.nren, y.nren), (x.co2, y.co2)].iter().all(|(p, q)| (p - q).abs() <= 0.000501);
        if !same_tags || !close {
            out.viol("same_factors", &[], cfg, format!("{y:?}"), format!("{x:?}"));
        }
    }
}

fn cep(stdout: &str) -> Option<String> {
    stdout.lines().find(|l| l.starts_with("C_ep [kWh/m2.an]:")).map(String::from)
}

fn nums(l: &str) -> Vec<f64> {
    l.split(|c: char| !(c.is_ascii_digit() || c == '.' || c == '-')).filter_map(|t| t.parse::<f64>().ok()).collect()
}

impl StateCheck for C18 {
    fn check(&self, text: &str, _l: &[Line], out: &mut Out) {
        let wf_text = text.lines().find_map(|l| l.strip_prefix("# WF:")).map(|s| s.replace("\\n", "\n"));
        let c = match subj::parse(text) {
            Ok(c) => c,
            Err(_) => {
                out.typed_errors += 1;
                return;
            }
        };
        out.evals += 1;
        let written = c.to_string();
        let c2 = match written.parse::<Components>() {
            Ok(c2) => c2,
            Err(e) => {
                out.viol("written_components_read_back", &[], "", format!("{e} on `{}`", written.replace('\n', " | ")), "parses");
                return;
            }
        };
        out.nontrivial = !c.data.is_empty();
        compare_components(&c, &c2, "components -> text -> components", out);
        // component sets reached through a history of library calls (part of the file read, a component pushed, normalized
        // again; normalized twice) survive the round trip as well
        {
            for v in crate::hist::variants(text, 6) {
                let Ok(cv) = &v.comps else { continue };
                out.evals += 1;
                out.regime("history_of_calls");
                match cv.to_string().parse::<Components>() {
                    Ok(cv2) => compare_components(cv, &cv2, &format!("{} -> text -> components", v.desc), out),
                    Err(e) => out.viol("written_components_read_back", &["history"], v.desc.clone(), format!("{e}"), "parses"),
                }
            }
        }
        if c.needs.ACS.is_some() || c.needs.CAL.is_some() || c.needs.REF.is_some() {
            out.regime("demands");
        }
        if c.data.iter().any(|e| e.is_aux()) {
            out.regime("auxiliaries");
        }
        if c.data.iter().any(|e| e.comment().starts_with("Equilibrado")) {
            out.regime("auto_completed");
        }
        if !c.meta.is_empty() {
            out.regime("metadata");
        }
        // factors
        let fsets: Vec<(String, Factors)> = match &wf_text {
            Some(t) => match subj::from_text(t) {
                Ok(f) => vec![("user file".to_string(), f)],
                Err(_) => vec![],
            },
            None => vec![("PENINSULA".to_string(), subj::fset("PENINSULA").clone()), ("SKEW+COGEN stripped".to_string(), subj::fset("SKEW+COGEN").clone().strip(&c))],
        };
        for (name, f) in &fsets {
            let fw = f.to_string();
            match fw.parse::<Factors>() {
                Ok(f2) => {
                    compare_factors(f, &f2, &format!("factors {name} -> text -> factors"), out);
                    out.regime("factors");
                    // evaluation on both sides
                    if c.data.is_empty() {
                        continue;
                    }
                    out.evals += 2;
                    match (subj::eval(&c, f, 0.5, 1.0, true), subj::eval(&c2, &f2, 0.5, 1.0, true)) {
                        (Ok(a), Ok(b)) => {
                            let mag = subj::magnitude(&c, f);
                            let fmax = f.wdata.iter().map(|w| w.ren.abs().max(w.nren.abs()).max(w.co2.abs()) as f64).fold(1.0, f64::max);
                            let t = subj::tol(mag) + 0.00501 * (c.data.len() as f64 + 2.0) * fmax * 2.0 + 0.000501 * mag;
                            let ratios = crate::cmp::ratios_ok(&a, mag * 10.0) && crate::cmp::ratios_ok(&b, mag * 10.0);
                            let d = cmp_flat_rt(&result_flat(&a), &result_flat(&b), t, 1e-3, 2e-2, &|p| p.contains("f_match") || (p.starts_with("rer") && !ratios), &|_, x| x);
                            out.compared += 1;
                            if !d.is_empty() {
                                let (x, y) = show(&d);
                                out.viol("same_results_after_round_trip", &[], format!("factors {name}"), format!("read back: {y}"), format!("original: {x}"));
                            }
                        }
                        (Err(_), Err(_)) => out.typed_errors += 2,
                        (a, b) => out.viol("same_results_after_round_trip", &[], format!("factors {name}"), format!("read back: {}", if b.is_ok() { "Ok" } else { "Err" }), format!("original: {}", if a.is_ok() { "Ok" } else { "Err" })),
                    }
                }
                Err(e) => out.viol("written_factors_read_back", &[], format!("factors {name}"), format!("{e}"), "parses"),
            }
        }
        // CLI: --oc / --of files re-run through the CLI reproduce the printed results
        if self.cli && cli::available() && wf_text.is_none() && !c.data.is_empty() {
            let o1 = cli::run(&cli::sv(&["-c", "@c.csv", "-l", "CANARIAS", "-a", "2.5", "-k", "0.5", "--red1", "0.125", "1.175", "0.255", "--red2", "0.3335", "0.6665", "0.1115", "--oc", "@oc.csv", "--of", "@of.csv"]), &[("c.csv", text.as_bytes())], &["oc.csv", "of.csv"], Some(3), Duration::from_secs(10));
            if o1.status != Some(0) {
                out.typed_errors += 1;
                return;
            }
            // the same run when both paths already hold a longer, older file: the saved files are the same
            let o1s = cli::run_env(&cli::sv(&["-c", "@c.csv", "-l", "CANARIAS", "-a", "2.5", "-k", "0.5", "--red1", "0.125", "1.175", "0.255", "--red2", "0.3335", "0.6665", "0.1115", "--oc", "@oc.csv", "--of", "@of.csv"]), &[("c.csv", text.as_bytes())], &["oc.csv", "of.csv"], Some(3), Duration::from_secs(10), true);
            out.regime("cli_saved_over_existing_files");
            if o1s.status != Some(0) || o1s.files != o1.files {
                out.viol("cli_saved_files_replace_existing_ones", &[], "--oc --of over existing longer files", format!("exit {:?}, lengths {:?}", o1s.status, o1s.files.iter().map(|f| f.1.as_ref().map(|b| b.len())).collect::<Vec<_>>()), format!("the files of a run into fresh paths, lengths {:?}", o1.files.iter().map(|f| f.1.as_ref().map(|b| b.len())).collect::<Vec<_>>()));
            }
            // ... and when they hold older files of exactly the same length (same layout, other digits)
            let same_len = |n: &str| -> Vec<u8> { o1.files.iter().find(|(k, _)| k == n).and_then(|(_, b)| b.clone()).unwrap_or_default().iter().map(|c| if c.is_ascii_digit() { b'7' } else { *c }).collect() };
            let (old_oc, old_of) = (same_len("oc.csv"), same_len("of.csv"));
            let o1l = cli::run(&cli::sv(&["-c", "@c.csv", "-l", "CANARIAS", "-a", "2.5", "-k", "0.5", "--red1", "0.125", "1.175", "0.255", "--red2", "0.3335", "0.6665", "0.1115", "--oc", "@oc.csv", "--of", "@of.csv"]), &[("c.csv", text.as_bytes()), ("oc.csv", &old_oc), ("of.csv", &old_of)], &["oc.csv", "of.csv"], Some(3), Duration::from_secs(10));
            if o1l.status != Some(0) || o1l.files != o1.files {
                out.viol("cli_saved_files_replace_existing_ones", &[], "--oc --of over existing files of the same length", format!("exit {:?}; the saved files are not those of a run into fresh paths", o1l.status), "the files of a run into fresh paths");
            }
            let get = |n: &str| o1.files.iter().find(|(k, _)| k == n).and_then(|(_, b)| b.clone());
            let (Some(oc), Some(of)) = (get("oc.csv"), get("of.csv")) else {
                out.viol("cli_writes_oc_of", &[], "--oc --of", "a requested file is missing", "two files");
                return;
            };
            // saved in place: the components file is also the --oc path (the input is read before anything is written): the file
            // left behind is the saved file of the ordinary run, and the run itself succeeds
            {
                let o5 = cli::run(&cli::sv(&["-c", "@c.csv", "-l", "CANARIAS", "-a", "2.5", "-k", "0.5", "--red1", "0.125", "1.175", "0.255", "--red2", "0.3335", "0.6665", "0.1115", "--oc", "@c.csv", "--of", "@of.csv"]), &[("c.csv", text.as_bytes())], &["c.csv", "of.csv"], Some(4), Duration::from_secs(10));
                out.regime("cli_saved_in_place");
                let inplace = o5.files.iter().find(|(k, _)| k == "c.csv").and_then(|(_, b)| b.clone());
                // (compared as data: the order of the reassigned auxiliary lines follows the hash order of the run)
                let as_data = |b: &Vec<u8>| String::from_utf8_lossy(b).parse::<Components>().ok().map(|c| (crate::hist::table(&c), c.get_metavec().iter().map(|m| (m.key.clone(), m.value.clone())).collect::<Vec<_>>()));
                let same_data = match (inplace.as_ref().and_then(as_data), as_data(&oc)) {
                    (Some((t1, m1)), Some((t2, m2))) => crate::hist::table_diff(&t1, &t2, 0.00501).is_none() && m1 == m2,
                    _ => false,
                };
                if o5.status != Some(0) || !same_data {
                    out.viol("cli_saved_in_place", &[], "cteepbd -c F ... --oc F --of OF", format!("exit {:?}; F holds {} bytes", o5.status, inplace.map(|b| b.len()).unwrap_or(0)), format!("exit 0 and F = the file saved by the ordinary run ({} bytes)", oc.len()));
                }
                // ... and the saved pair evaluated in place again (-c OC -f OF --oc OC --of OF) is a fixed point up to the printed precision
                let o6 = cli::run(&cli::sv(&["-c", "@oc.csv", "-f", "@of.csv", "--oc", "@oc.csv", "--of", "@of.csv"]), &[("oc.csv", &oc), ("of.csv", &of)], &["oc.csv", "of.csv"], Some(4), Duration::from_secs(10));
                let oc2 = o6.files.iter().find(|(k, _)| k == "oc.csv").and_then(|(_, b)| b.clone());
                let parses = oc2.as_ref().map(|b| String::from_utf8_lossy(b).parse::<Components>().is_ok()).unwrap_or(false);
                if o6.status != Some(0) || !parses {
                    out.viol("cli_saved_in_place", &[], "cteepbd -c OC -f OF --oc OC --of OF", format!("exit {:?}; OC holds {} bytes, readable: {parses}", o6.status, oc2.map(|b| b.len()).unwrap_or(0)), "exit 0 and a readable components file");
                }
            }
            let o2 = cli::run(&cli::sv(&["-c", "@oc.csv", "-f", "@of.csv"]), &[("oc.csv", &oc), ("of.csv", &of)], &[], Some(4), Duration::from_secs(10));
            out.regime("cli_run");
            out.compared += 1;
            let cfg = "cteepbd -c F -l CANARIAS -a 2.5 -k 0.5 --red1 0.125 1.175 0.255 --red2 0.3335 0.6665 0.1115 --oc OC --of OF; cteepbd -c OC -f OF";
            if o2.status != Some(0) {
                out.viol("cli_saved_files_evaluate", &[], cfg, format!("second run exits {:?}: {}", o2.status, o2.stderr.chars().take(200).collect::<String>()), "exit 0");
                return;
            }
            match (cep(&o1.stdout), cep(&o2.stdout)) {
                (Some(a), Some(b)) => {
                    let (na, nb) = (nums(&a), nums(&b));
                    // printed with one decimal; inputs rounded to 2 (energies) / 3 (factors) decimals
                    let mag = subj::magnitude(&c, subj::fset("CANARIAS"));
                    let t = 0.1 + (0.00501 * (c.data.len() as f64 + 2.0) * 3.0 + 0.000501 * mag) / 2.5;
                    if na.len() != nb.len() || na.iter().zip(&nb).any(|(x, y)| (x - y).abs() > t) {
                        out.viol("cli_saved_files_give_same_results", &[], cfg, format!("second run: {b}"), format!("first run: {a}"));
                    }
                    // emissions and renewable ratios too
                    for (lab, tol) in [("E_CO2 [kg_CO2e/m2.an]:", t), ("RER = ", 0.021), ("RER_nrb = ", 0.021)] {
                        let v1 = o1.stdout.lines().find(|l| l.starts_with(lab)).map(|l| nums(&l[lab.len()..]));
                        let v2 = o2.stdout.lines().find(|l| l.starts_with(lab)).map(|l| nums(&l[lab.len()..]));
                        let ok = match (&v1, &v2) {
                            (Some(x), Some(y)) => x.len() == y.len() && x.iter().zip(y).all(|(p, q)| (p - q).abs() <= tol),
                            _ => false,
                        };
                        // ratios of totals that are rounding noise are not comparable
                        let noise = lab.starts_with("RER") && na.iter().chain(nb.iter()).all(|x| x.abs() <= 2.0 * t);
                        if !ok && !noise {
                            out.viol("cli_saved_files_give_same_results", &[], cfg, format!("{lab} second run {v2:?}"), format!("first run {v1:?}"));
                        }
                    }
                    for lab in ["Área de referencia", "Factor de exportación"] {
                        let v1 = o1.stdout.lines().find(|l| l.starts_with(lab)).map(|l| nums(l.split(':').nth(1).unwrap_or("")));
                        let v2 = o2.stdout.lines().find(|l| l.starts_with(lab)).map(|l| nums(l.split(':').nth(1).unwrap_or("")));
                        if v1 != v2 {
                            out.viol("cli_saved_files_give_same_results", &[], cfg, format!("{lab}: second run {v2:?}"), format!("first run {v1:?}"));
                        }
                    }
                }
                (a, b) => out.viol("cli_saved_files_give_same_results", &[], cfg, format!("second run report: {b:?}"), format!("first run report: {a:?}")),
            }
            // the saved components keep the demands and the user factors at 3 decimals
            let oc_txt = String::from_utf8_lossy(&oc).to_string();
            if let Ok(c3) = oc_txt.parse::<Components>() {
                for (k, exp) in [("CTE_RED1", [0.125, 1.175, 0.255]), ("CTE_RED2", [0.3335, 0.6665, 0.1115])] {
                    let got: Vec<f64> = c3.get_meta(k).map(|v| v.split(',').filter_map(|x| x.trim().parse::<f64>().ok()).collect()).unwrap_or_default();
                    if got.len() != 3 || (0..3).any(|i| (got[i] - exp[i]).abs() > 0.00051) {
                        out.viol("saved_user_factors_at_printed_precision", &[], "--oc file", format!("{k} = {got:?}"), format!("{exp:?} at 3 decimals"));
                    }
                }
                for (s, x, y) in [("ACS", &c.needs.ACS, &c3.needs.ACS), ("CAL", &c.needs.CAL, &c3.needs.CAL), ("REF", &c.needs.REF, &c3.needs.REF)] {
                    if x.is_some() != y.is_some() {
                        out.viol("same_demands", &[], "--oc file", format!("{s}: {y:?}"), format!("{x:?}"));
                    }
                }
            }
        }
    }
}

fn extra_letters() -> Vec<Letter> {
    vec![
        Letter::one(d("ACS", &k(&[4, 4]))),
        Letter::one(d("CAL", &[133, 377])),
        Letter::one(d("ACS", &[25, 75])),
        // demands that do not sum to a positive number: nothing demanded, cooling written with negative sign
        Letter::one(d("REF", &[0, 0])),
        Letter::one(d("REF", &[-200, -650])),
        // an annual demand (one value) beside components with two steps: accepted when read, so it must survive
        Letter::one(d("ACS", &[1234])),
        Letter::one(d("CAL", &[0, 300])),
        Letter::one(u(Some(3), "CAL", "RED1", &[1000, 2050])),
        Letter::one(u(Some(3), "ACS", "RED2", &[500, 125])),
        Letter::many(vec![a(Some(1), &k(&[1, 1])), o(1, "ACS", &k(&[1, 1])), o(1, "CAL", &k(&[3, 1]))]),
        Letter::one(a(Some(2), &[50, 25])),
        Letter::one(o(9, "REF", &[-300, -150])),
        Letter::one(Line::U { id: None, srv: "ILU", car: "ELECTRICIDAD", v: k(&[1, 2]), com: "legado: sin id # con almohadilla" }),
        Letter::one(Line::P { id: None, src: "EL_INSITU", v: vec![125, 250], com: "PV: 2 paneles" }),
        Letter::one(Line::A { id: None, v: vec![10, 20], com: "aux legado" }),
        Letter::one(Line::M { key: "CTE_AREAREF", val: "100.5" }),
        Letter::one(Line::M { key: "Nota", val: "a: b, c # d" }),
        Letter::one(Line::Raw("#CTE_Localizacion: PENINSULA".into())),
        Letter::one(Line::Raw("#CTE_kexp: 0.5".into())),
        // the same key a second time (legacy spelling + #META): the saved file must still give the value used
        Letter::one(Line::Raw("#CTE_Area_ref: 150".into())),
        Letter::one(Line::M { key: "CTE_KEXP", val: "0.25" }),
        Letter::one(u(Some(1), "ACS", "EAMBIENTE", &[333, 667])),
        Letter::one(p(Some(1), "EAMBIENTE", &[100, 900])),
        Letter::one(Line::Raw("# WF:#META CTE_FUENTE: usuario\\nELECTRICIDAD, RED, SUMINISTRO, A, 0.4146, 1.9544, 0.3315 # red\\nGASNATURAL, RED, SUMINISTRO, A, 0.005, 1.19, 0.252\\nEAMBIENTE, INSITU, A_RED, B, 0.5, 0.25, 0.125 # exportación\\nBIOMASA, RED, SUMINISTRO, A, 1.003, 0.034, 0.018".into())),
    ]
}

pub fn run(ctx: &Ctx) -> i32 {
    let shared = Shared::new("C18", ctx);
    let dq = if ctx.quick() { 3 } else { 4 };
    let mut al = alpha::flow(2, &[0, 100, 300], Rich::Base);
    al.extend(extra_letters());
    explore(ctx, &format!("FLOW + legacy/comment/metadata/aux/output/demand letters, integer and 2-decimal values, depth<={dq}"), Wide { alphabet: al, bases: alpha::bases(false), max_add: dq, repeat: false }, C18 { cli: false }, shared.clone());
    let mut dec = alpha::flow(2, &[0, 3333, 123456], Rich::Base);
    dec.extend(extra_letters());
    // decimal values: written with 2 decimals
    let dec: Vec<Letter> = dec
        .into_iter()
        .map(|l| Letter::many(l.lines.into_iter().map(|ln| match ln.values() { Some(v) => { let nv: Vec<V> = v.clone(); ln.with_values(nv) } None => ln }).collect()))
        .collect();
    explore(ctx, &format!("decimal values (third decimals written in the file), depth<={dq}"), DecimalWide { inner: Wide { alphabet: dec, bases: alpha::bases(false), max_add: dq, repeat: false } }, C18 { cli: false }, shared.clone());
    {
        let n = if ctx.quick() { 12 } else { 16 };
        explore(ctx, &format!("COMBO: complete 12-step buildings, {n} subsystems absent/present"), Layered { slots: alpha::combo_slots(n), bases: alpha::bases(false) }, C18 { cli: false }, shared.clone());
    }
    explore(ctx, "VOCAB: every (service, carrier) pair / cogeneration fuel / production source added to a small building", Wide { alphabet: alpha::vocab_letters(), bases: alpha::vocab_base(), max_add: if ctx.quick() { 1 } else { 2 }, repeat: false }, C18 { cli: false }, shared.clone());
    explore(ctx, "shipped files + <=1 line (in-process + CLI --oc/--of round trip)", Wide { alphabet: alpha::seeded_letters(), bases: alpha::shipped_bases(), max_add: if ctx.quick() { 0 } else { 1 }, repeat: false }, C18 { cli: true }, shared.clone());
    let mut small = extra_letters();
    small.push(Letter::one(u(Some(0), "CAL", "GASNATURAL", &k(&[3, 1]))));
    small.push(Letter::one(u(Some(1), "ACS", "ELECTRICIDAD", &k(&[1, 3]))));
    explore(ctx, "small files with every kind of line, depth<=3 (CLI --oc/--of round trip)", Wide { alphabet: small, bases: vec![("empty".to_string(), String::new()), ("one boiler".to_string(), "2, CONSUMO, CAL, GASNATURAL, 4, 2\n".to_string())], max_add: if ctx.quick() { 2 } else { 3 }, repeat: false }, C18 { cli: true }, shared.clone());
    finish(
        ctx,
        &shared,
        &C18 { cli: true },
        Finish {
            level: "model_checking",
            rule: "every FLOW state extended with legacy lines, comments containing '#' ':' ',', metadata (also legacy #CTE_ keys), auxiliaries, outputs, demands, auto-completed components and user factor files; integer, 2-decimal and 3-decimal value sets: Components/Factors -> text -> parse compared (metadata, demands, components, factors) and both sides evaluated; CLI: run with --oc/--of, re-run on the saved files, compare the printed results; non-trivial = state with components".into(),
            assumptions: strs(&[
                "values that are multiples of 0.01: exact multiset of components required; otherwise sums per (kind, id, tags) within 0.005 x lines and every comment kept (rounding may move 0.01 kWh into an auto-completed component)",
                "factors at 0.0005; results at the precision the rounded inputs allow",
            ]),
            required_regimes: strs(&["exact_values", "rounded_values", "demands", "auxiliaries", "auto_completed", "metadata", "factors", "cli_run"]),
            extra: serde_json::json!({}),
        },
    )
}

/// same as Wide but values are written with a third decimal (x.xx3) so that printing with 2 decimals rounds
pub struct DecimalWide {
    pub inner: Wide,
}
impl Space for DecimalWide {
    type S = WS;
    fn init(&self) -> Vec<WS> {
        self.inner.init()
    }
    fn actions(&self, s: &WS, out: &mut Vec<u32>) {
        self.inner.actions(s, out)
    }
    fn next(&self, s: &WS, a: u32) -> Option<WS> {
        self.inner.next(s, a)
    }
    fn lines(&self, s: &WS) -> Option<(String, Vec<Line>)> {
        let (b, ls) = self.inner.lines(s)?;
        // render and append a third decimal to every non-zero value: 12.34 -> 12.343
        let mut text = String::new();
        for l in &ls {
            let r = l.render();
            match crate::cmp::split_line(&r) {
                Some((pre, vals, com)) if l.values().is_some() => {
                    let v2: Vec<f64> = vals.iter().map(|x| if *x == 0.0 { 0.0 } else { x + 0.003 * x.signum() }).collect();
                    let mut s = pre.join(", ");
                    for v in v2 {
                        s.push_str(&format!(", {v:.3}"));
                    }
                    if !com.is_empty() {
                        s.push(' ');
                        s.push_str(&com);
                    }
                    text.push_str(&s);
                }
                _ => text.push_str(&r),
            }
            text.push('\n');
        }
        Some((format!("{b}{text}"), vec![]))
    }
    fn depth(&self, s: &WS) -> usize {
        self.inner.depth(s)
    }
}

pub fn replay(path: &str) -> i32 {
    replay_file("C18", &C18 { cli: true }, path)
}
