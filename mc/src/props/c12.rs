//! C12 On-site electricity is used first; load matching can only lower self-use.

use cteepbd::types::{Carrier, EnergyPerformance, ProdSource};

use super::strs;
use crate::alpha;
use crate::core::*;
use crate::model::*;
use crate::subj::{self, close};

#[derive(Clone, Copy)]
pub struct C12;

fn fmatch_ref(prod: f64, used: f64) -> f64 {
    if prod <= 0.0 || used <= 0.0 {
        1.0
    } else {
        let x = prod / used;
        (x + 1.0 / x - 1.0) / (x + 1.0 / x)
    }
}

/// the harness' own reading of "EPB service" (not the subject's predicate)
fn own_is_epb(service: &str) -> bool {
    service != "NEPB" && service != "COGEN"
}

fn step_regime(pv: f64, chp: f64, us: f64) -> &'static str {
    if pv + chp == 0.0 {
        "no_production"
    } else if us == 0.0 {
        "no_use"
    } else if pv >= us {
        "pv>=use"
    } else if us <= pv + chp {
        "pv<use<=pv+chp"
    } else {
        "use>pv+chp"
    }
}

fn get<'a>(m: &'a std::collections::HashMap<ProdSource, Vec<f32>>, s: ProdSource) -> Option<&'a Vec<f32>> {
    m.get(&s)
}

fn check_pair(off: &EnergyPerformance, on: &EnergyPerformance, cfg: &str, out: &mut Out) {
    let (Some(boff), Some(bon)) = (off.balance_cr.get(&Carrier::ELECTRICIDAD), on.balance_cr.get(&Carrier::ELECTRICIDAD)) else {
        return;
    };
    let mag = subj::magnitude(&off.components, &off.wfactors);
    let t = subj::tol(mag);
    let n = boff.used.epus_t.len();
    // the EPB electricity use as declared: EPB services' electricity + auxiliaries tagged with an EPB service
    // (auxiliaries of a system without EPB service keep the tag NEPB / COGEN and are non-EPB use)
    let mut us_in = vec![0.0f64; n];
    for c in &off.components.data {
        let v: Option<&Vec<f32>> = match c {
            cteepbd::types::Energy::Used(e) if e.carrier == Carrier::ELECTRICIDAD && own_is_epb(&format!("{}", e.service)) => Some(&e.values),
            cteepbd::types::Energy::Aux(e) if own_is_epb(&format!("{}", e.service)) => Some(&e.values),
            _ => None,
        };
        if let Some(v) = v {
            for (i, x) in v.iter().enumerate().take(n) {
                us_in[i] += *x as f64;
            }
        }
    }
    for (lm, b) in [(false, boff), (true, bon)] {
        let cfg = format!("{cfg} load_matching={lm}");
        for i in 0..n {
            let us = b.used.epus_t[i] as f64;
            if !close(us, us_in[i], t) {
                out.viol("epb_use_is_the_declared_one", &[], &cfg, format!("step {i}: EPB electricity use of the balance = {us}"), format!("declared: {}", us_in[i]));
            }
            let pv = get(&b.prod.by_src_t, ProdSource::EL_INSITU).map(|v| v[i] as f64).unwrap_or(0.0);
            let chp = get(&b.prod.by_src_t, ProdSource::EL_COGEN).map(|v| v[i] as f64).unwrap_or(0.0);
            let f = b.f_match[i] as f64;
            let reg = step_regime(pv, chp, us);
            out.regime(format!("{}:{}", if lm { "lm" } else { "nolm" }, reg));
            out.compared += 1;
            let f_ref = if lm { fmatch_ref(pv + chp, us) } else { 1.0 };
            if !close(f, f_ref, 1e-5) {
                out.viol("f_match_formula", &[], &cfg, format!("step {i}: f_match={f} (pv={pv} chp={chp} use={us})"), format!("{f_ref}"));
            }
            if !(f >= 0.5 - 1e-6 && f <= 1.0 + 1e-6) {
                out.viol("f_match_range", &[], &cfg, format!("step {i}: f_match={f}"), "[0.5, 1]");
            }
            let u_pv = get(&b.prod.epus_by_src_t, ProdSource::EL_INSITU).map(|v| v[i] as f64);
            let u_chp = get(&b.prod.epus_by_src_t, ProdSource::EL_COGEN).map(|v| v[i] as f64);
            let e_pv = f_ref * pv.min(us);
            let e_chp = f_ref * chp.min(us - pv.min(us));
            if get(&b.prod.by_src_t, ProdSource::EL_INSITU).is_some() {
                match u_pv {
                    Some(u) => {
                        if !close(u, e_pv, t) {
                            out.viol("onsite_first", &[reg], &cfg, format!("step {i}: EL_INSITU used by EPB = {u} (pv={pv} chp={chp} use={us})"), format!("f*min(PV,use) = {e_pv}"));
                        }
                    }
                    None => out.viol("onsite_first", &[reg], &cfg, format!("step {i}: no EL_INSITU allocation"), format!("{e_pv}")),
                }
            }
            if get(&b.prod.by_src_t, ProdSource::EL_COGEN).is_some() {
                match u_chp {
                    Some(u) => {
                        if !close(u, e_chp, t) {
                            out.viol("cogen_after_onsite", &[reg], &cfg, format!("step {i}: EL_COGEN used by EPB = {u} (pv={pv} chp={chp} use={us})"), format!("f*min(CHP, use-min(PV,use)) = {e_chp}"));
                        }
                    }
                    None => out.viol("cogen_after_onsite", &[reg], &cfg, format!("step {i}: no EL_COGEN allocation"), format!("{e_chp}")),
                }
            }
            let tot = u_pv.unwrap_or(0.0) + u_chp.unwrap_or(0.0);
            if !(tot <= us + t) {
                out.viol("allocations_le_use", &[reg], &cfg, format!("step {i}: {tot}"), format!("<= use {us}"));
            }
            if !close(tot, b.prod.epus_t[i] as f64, t) {
                out.viol("allocations_sum_to_total", &[reg], &cfg, format!("step {i}: by source {tot}"), format!("prod.epus_t = {}", b.prod.epus_t[i]));
            }
        }
    }
    // load matching can only lower self-use and raise grid delivery
    for i in 0..n {
        out.compared += 1;
        if !(bon.prod.epus_t[i] as f64 <= boff.prod.epus_t[i] as f64 + t) {
            out.viol("lm_never_increases_self_use", &[], cfg, format!("step {i}: with {} ", bon.prod.epus_t[i]), format!("<= without {}", boff.prod.epus_t[i]));
        }
        if !(bon.del.grid_t[i] as f64 >= boff.del.grid_t[i] as f64 - t) {
            out.viol("lm_never_decreases_grid_delivery", &[], cfg, format!("step {i}: with {}", bon.del.grid_t[i]), format!(">= without {}", boff.del.grid_t[i]));
        }
        if bon.f_match[i] < 1.0 {
            out.nontrivial = true;
        }
    }
}

impl StateCheck for C12 {
    fn check(&self, text: &str, _l: &[Line], out: &mut Out) {
        let comps = match subj::parse(text) {
            Ok(c) => c,
            Err(_) => {
                out.typed_errors += 1;
                return;
            }
        };
        if comps.data.is_empty() {
            return;
        }
        let f = subj::fset("PENINSULA");
        out.evals += 2;
        match (subj::eval(&comps, f, 0.0, 1.0, false), subj::eval(&comps, f, 0.0, 1.0, true)) {
            (Ok(off), Ok(on)) => check_pair(&off, &on, "factors=PENINSULA", out),
            (Err(_), Err(_)) => out.typed_errors += 2,
            _ => out.viol("error_depends_on_load_matching", &[], "factors=PENINSULA", "one mode fails", "both or none"),
        }
    }
}

/// EL model: slots {EPB use, 2nd EPB use (other service), non-EPB use, PV, 2nd PV line, CHP (+fuel)} x all vectors
fn el_slots(t: usize, vals: &[V], second: bool) -> Vec<Vec<Letter>> {
    let mut vs = vec![vec![0; t]];
    vs.extend(alpha::vectors(t, vals));
    let absent_or = |f: &dyn Fn(&Vec<V>) -> Letter| -> Vec<Letter> { vs.iter().map(|v| if v.iter().all(|x| *x == 0) { Letter::many(vec![]) } else { f(v) }).collect() };
    let mut s = vec![
        absent_or(&|v| Letter::one(u(Some(0), "ILU", "ELECTRICIDAD", v))),
        absent_or(&|v| Letter::one(u(Some(0), "NEPB", "ELECTRICIDAD", v))),
        absent_or(&|v| Letter::one(p(Some(0), "EL_INSITU", v))),
        absent_or(&|v| Letter::many(vec![p(Some(2), "EL_COGEN", v), u(Some(2), "COGEN", "GASNATURAL", &alpha::scale(v, 2, 1))])),
    ];
    if second || t <= 2 && vals.len() <= 3 {
        // a second PV field in a system that sorts after the cogenerator (two generators of one source, not contiguous)
        s.push(absent_or(&|v| Letter::one(p(Some(3), "EL_INSITU", v))));
    }
    if second {
        // a zero-valued PV line / CHP line present (source exists, produces nothing), a second service
        s.push(vec![Letter::many(vec![]), Letter::one(p(Some(1), "EL_INSITU", &vec![0; t])), Letter::one(u(Some(1), "ACS", "ELECTRICIDAD", &vs[vs.len() - 1]))]);
        s.push(vec![Letter::many(vec![]), Letter::many(vec![p(Some(3), "EL_COGEN", &vec![0; t]), u(Some(3), "COGEN", "GASNATURAL", &vs[1])])]);
        // a cogenerator with its own auxiliaries (non-EPB use: the system serves no EPB service)
        s.push(vec![Letter::many(vec![]), Letter::many(vec![p(Some(4), "EL_COGEN", &vs[vs.len() - 1]), u(Some(4), "COGEN", "GASNATURAL", &alpha::scale(&vs[vs.len() - 1], 2, 1)), a(Some(4), &vs[1])])]);
    }
    s
}

pub fn run(ctx: &Ctx) -> i32 {
    let shared = Shared::new("C12", ctx);
    if ctx.quick() {
        explore(ctx, "EL layered T=2 values {0,1,2,4}", Layered { slots: el_slots(2, &[0, 100, 200, 400], false), bases: alpha::bases(false) }, C12, shared.clone());
        explore(ctx, "EL layered T=1 values {0,1,2,4} + zero-valued sources", Layered { slots: el_slots(1, &[0, 100, 200, 400], true), bases: alpha::bases(false) }, C12, shared.clone());
        explore(ctx, "EL layered T=3 values {0,1,3}", Layered { slots: el_slots(3, &[0, 100, 300], false), bases: alpha::bases(false) }, C12, shared.clone());
        explore(ctx, "EL layered T=2 decimal {0,0.01,0.07,33.33}", Layered { slots: el_slots(2, &[0, 1, 7, 3333], false), bases: alpha::bases(false) }, C12, shared.clone());
        explore(ctx, "EL layered T=2 values {0,1,3} + second PV field after the cogenerator", Layered { slots: el_slots(2, &[0, 100, 300], false), bases: alpha::bases(false) }, C12, shared.clone());
    } else {
        explore(ctx, "EL layered T=2 values {0,1,3} + second PV field after the cogenerator", Layered { slots: el_slots(2, &[0, 100, 300], false), bases: alpha::bases(false) }, C12, shared.clone());
        explore(ctx, "EL layered T=2 values {0,1,2,4} + zero-valued sources", Layered { slots: el_slots(2, &[0, 100, 200, 400], true), bases: alpha::bases(false) }, C12, shared.clone());
        explore(ctx, "EL layered T=3 values {0,1,3}", Layered { slots: el_slots(3, &[0, 100, 300], false), bases: alpha::bases(false) }, C12, shared.clone());
        explore(ctx, "EL layered T=2 decimal {0,0.01,0.07,33.33}", Layered { slots: el_slots(2, &[0, 1, 7, 3333], false), bases: alpha::bases(false) }, C12, shared.clone());
        explore(ctx, "EL layered T=3 values {0,1,2,4}", Layered { slots: el_slots(3, &[0, 100, 200, 400], false), bases: alpha::bases(false) }, C12, shared.clone());
    }
    {
        let n = if ctx.quick() { 14 } else { 16 };
        explore(ctx, &format!("COMBO: complete 12-step buildings, {n} subsystems absent/present"), Layered { slots: alpha::combo_slots(n), bases: alpha::bases(false) }, C12, shared.clone());
    }
    explore(ctx, "VOCAB: every (service, carrier) pair / cogeneration fuel / production source added to a small building", Wide { alphabet: alpha::vocab_letters(), bases: alpha::vocab_base(), max_add: if ctx.quick() { 1 } else { 2 }, repeat: false }, C12, shared.clone());
    explore(ctx, "TINY: values around the absolute thresholds of the code (1e-3, 0.01 kWh), depth<=4", Wide { alphabet: alpha::tiny_letters(), bases: alpha::bases(false), max_add: 4, repeat: false }, C12, shared.clone());
    explore(ctx, "LONG: complete buildings with 13, 24, 31, 52, 365 and 8760 steps", Wide { alphabet: vec![], bases: alpha::long_bases(), max_add: 0, repeat: false }, C12, shared.clone());
    explore(ctx, "seeded: shipped files + <=2 lines", Wide { alphabet: alpha::seeded_letters(), bases: alpha::shipped_bases(), max_add: if ctx.quick() { 1 } else { 2 }, repeat: false }, C12, shared.clone());
    let mut req = vec![];
    for lm in ["lm", "nolm"] {
        for r in ["no_production", "no_use", "pv>=use", "pv<use<=pv+chp", "use>pv+chp"] {
            req.push(format!("{lm}:{r}"));
        }
    }
    finish(
        ctx,
        &shared,
        &C12,
        Finish {
            level: "model_checking",
            rule: "layered EL model: every combination of EPB use / non-EPB use / PV / CHP vectors over the value set, so that every per-step regime occurs in every combination over the steps; each evaluated with load matching off and on; non-trivial = f_match < 1 at some step".into(),
            assumptions: strs(&[
                "x = total production / EPB use of the step; factor 1 when either is zero",
                "allocation compared with f*min(PV,use) and f*min(CHP, use-min(PV,use)), tolerance 2e-5*magnitude+1e-6",
            ]),
            required_regimes: req,
            extra: serde_json::json!({}),
        },
    )
}

pub fn replay(path: &str) -> i32 {
    replay_file("C12", &C12, path)
}
