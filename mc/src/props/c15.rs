//! C15 The renewable share of DHW demand is a fraction that depends only on DHW supply.
//! Layered model in PARAMETER space (demand, supply mix, PV, auxiliaries, bystanders); the closed form is
//! computed from the parameters (recorded in `# P:` comment lines of the generated file), never from outputs.

use std::collections::BTreeMap;

use cteepbd::cte;

use super::strs;
use crate::alpha;
use crate::cmp;
use crate::core::*;
use crate::model::*;
use crate::subj;

#[derive(Clone, Copy)]
pub struct C15;

fn fraction(text: &str, fs: &cteepbd::Factors, k: f32, out: &mut Out) -> Result<Result<f64, String>, String> {
    fraction_lm(text, fs, k, false, out)
}

fn fraction_lm(text: &str, fs: &cteepbd::Factors, k: f32, lm: bool, out: &mut Out) -> Result<Result<f64, String>, String> {
    let c = subj::parse(text).map_err(|e| format!("parse: {e}"))?;
    out.evals += 1;
    let ep = subj::eval(&c, fs, k, 1.0, lm).map_err(|e| format!("eval: {e}"))?;
    let direct = cte::fraccion_renovable_acs_nrb(&ep).map(|x| x as f64).map_err(|e| format!("{e}"));
    // the value / error reported through misc must agree with the direct call
    let ep2 = cte::incorpora_demanda_renovable_acs_nrb(ep);
    let misc = ep2.misc.as_ref();
    let val = misc.and_then(|m| m.get("fraccion_renovable_demanda_acs_nrb")).cloned();
    let err = misc.and_then(|m| m.get("error_acs")).cloned();
    match (&direct, val, err) {
        (Ok(x), Some(v), None) => {
            if (v.parse::<f64>().unwrap_or(f64::NAN) - x).abs() > 6e-4 {
                out.viol("misc_reports_value", &[], "", format!("misc value {v}"), format!("{x}"));
            }
        }
        (Err(_), None, Some(_)) => {}
        (d, v, e) => out.viol("misc_reports_value_or_error", &[], "", format!("direct={d:?} misc value={v:?} error_acs={e:?}"), "a number XOR error_acs"),
    }
    Ok(direct)
}

#[derive(Debug)]
enum Expect {
    Value(f64),
    Error,
    /// range / invariance clauses only
    NoClosedForm,
}

fn params(text: &str) -> BTreeMap<String, String> {
    text.lines().filter_map(|l| l.trim().strip_prefix("# P:")).filter_map(|kv| kv.split_once('=')).map(|(k, v)| (k.trim().to_string(), v.trim().to_string())).collect()
}

fn vecp(s: &str) -> Vec<f64> {
    s.split(';').filter_map(|x| x.trim().parse().ok()).collect()
}

/// renewable ratio of the regulatory grid factors (PENINSULA), written here independently
fn ratio(carrier: &str, red: (f64, f64)) -> f64 {
    match carrier {
        "BIOMASA" => 1.003 / (1.003 + 0.034),
        "BIOMASADENSIFICADA" => 1.028 / (1.028 + 0.085),
        "RED1" | "RED2" => {
            if red.0 + red.1 == 0.0 {
                // a network without primary energy (waste heat): nothing renewable is delivered
                0.0
            } else {
                red.0 / (red.0 + red.1)
            }
        }
        "EAMBIENTE" | "TERMOSOLAR" => 1.0,
        _ => 0.0,
    }
}

/// closed form in the generator's parameter space
fn closed_form(p: &BTreeMap<String, String>, red: (f64, f64)) -> Expect {
    closed_form_lm(p, red, false)
}

fn closed_form_lm(p: &BTreeMap<String, String>, red: (f64, f64), lm: bool) -> Expect {
    let d = vecp(p.get("D").map(|s| s.as_str()).unwrap_or(""));
    let demand_kind = p.get("demand").map(|s| s.as_str()).unwrap_or("given");
    let mix = p.get("mix").map(|s| s.as_str()).unwrap_or("");
    let n = d.len();
    let dsum: f64 = d.iter().sum();
    if mix == "none" {
        // neither DHW supply nor anything to compute: documented as 0 (error only if no demand is declared)
        return if demand_kind == "none" { Expect::Error } else { Expect::Value(0.0) };
    }
    if demand_kind == "none" || demand_kind == "zero" {
        return Expect::Error;
    }
    // the auxiliaries option that also declares the output of system 1 changes what is declared for the
    // biomass / district mixes: only the generic clauses apply there
    if p.get("aux").map(|s| s.as_str()) == Some("prop+out") && !matches!(mix, "joule" | "hp25" | "hp4" | "hp25_excluded" | "hp25_excluded2" | "red1" | "red2" | "biomass" | "dens") {
        return Expect::NoClosedForm;
    }
    if matches!(mix, "biomass+gas_noout" | "biomass+joule_noout" | "2biomass_oneout+gas_noout") {
        return Expect::Error;
    }
    // thermal part
    let thermal: f64 = match mix {
        "joule" => 0.0,
        "hp25" => dsum * (1.0 - 1.0 / 2.5),
        "hp4" => dsum * 0.75,
        // ambient heat of a heat pump tagged as low SCOP is excluded (documented tag)
        "hp25_excluded" | "hp25_excluded2" => 0.0,
        // two heat pumps of which only the second (SCOP 2) carries the exclusion tag: the first one's ambient heat counts
        "hp3_60+hp2_40_excluded" => 0.4 * dsum,
        "solar25+gas" => 0.25 * dsum,
        "solar50+gas" => 0.5 * dsum,
        "solar75+gas" => 0.75 * dsum,
        "red1_50+gas" => 0.5 * dsum * ratio("RED1", red),
        "red1" => dsum * ratio("RED1", red),
        "red2" => dsum * ratio("RED2", red),
        "red1_40+solar60" => 0.6 * dsum + 0.4 * dsum * ratio("RED1", red),
        "red1_50+biomass50" => 0.5 * dsum * ratio("RED1", red) + 0.5 * dsum * ratio("BIOMASA", red),
        "biofuel" => 0.0,
        "solar40+biofuel" => 0.4 * dsum,
        "red2_50+hp4_50" => 0.5 * dsum * 0.75 + 0.5 * dsum * ratio("RED2", red),
        "red1_25+red2_25+solar50" => 0.5 * dsum + 0.25 * dsum * ratio("RED1", red) + 0.25 * dsum * ratio("RED2", red),
        "biomass" => dsum * ratio("BIOMASA", red),
        "biomass+solar50" => 0.5 * dsum + 0.5 * dsum * ratio("BIOMASA", red),
        "biomass+dens_out" => 0.5 * dsum * ratio("BIOMASA", red) + 0.5 * dsum * ratio("BIOMASADENSIFICADA", red),
        "gas+biomass_out" | "gas+biomass_out_heats" | "gas+biomass_out_2lines" | "gas+2biomass_out" => 0.5 * dsum * ratio("BIOMASA", red),
        "gas+2dens_out+biomass_out" => 0.25 * dsum * ratio("BIOMASA", red) + 0.5 * dsum * ratio("BIOMASADENSIFICADA", red),
        "dens" => dsum * ratio("BIOMASADENSIFICADA", red),
        _ => return Expect::NoClosedForm,
    };
    // electric part: PV allocated to the non-auxiliary DHW electricity, per step
    let e_acs: Vec<f64> = match mix {
        "joule" => d.clone(),
        "hp25" | "hp25_excluded" | "hp25_excluded2" => d.iter().map(|x| x / 2.5).collect(),
        "hp4" => d.iter().map(|x| x / 4.0).collect(),
        "hp3_60+hp2_40_excluded" => d.iter().map(|x| x * 0.4).collect(),
        "red2_50+hp4_50" => d.iter().map(|x| x / 8.0).collect(),
        _ => vec![0.0; n],
    };
    let aux = vecp(p.get("auxv").map(|s| s.as_str()).unwrap_or(""));
    let aux_kind = p.get("aux").map(|s| s.as_str()).unwrap_or("none");
    let pv = vecp(p.get("pvv").map(|s| s.as_str()).unwrap_or(""));
    let ilu = vecp(p.get("iluv").map(|s| s.as_str()).unwrap_or(""));
    let g = |v: &Vec<f64>, i: usize| v.get(i).copied().unwrap_or(0.0);
    if aux_kind == "nonprop" && e_acs.iter().any(|x| *x > 0.0) && pv.iter().any(|x| *x > 0.0) {
        return Expect::NoClosedForm;
    }
    let mut el = 0.0;
    for i in 0..n {
        let utot = e_acs[i] + g(&aux, i) + g(&ilu, i);
        if utot > 0.0 {
            // load matching factor (32) with x = production / use of the step
            let f = if lm && g(&pv, i) > 0.0 {
                let x = g(&pv, i) / utot;
                (x + 1.0 / x - 1.0) / (x + 1.0 / x)
            } else {
                1.0
            };
            el += f * g(&pv, i).min(utot) * e_acs[i] / utot;
        }
    }
    Expect::Value((thermal + el) / dsum)
}

impl StateCheck for C15 {
    fn check(&self, text: &str, _l: &[Line], out: &mut Out) {
        let p = params(text);
        if p.is_empty() {
            return;
        }
        let mix = p.get("mix").cloned().unwrap_or_default();
        // precondition "declared demand consistent with declared supply": the auxiliaries option that declares
        // the whole demand as the output of system 1 is consistent only where system 1 supplies all of it
        if p.get("aux").map(|s| s.as_str()) == Some("prop+out") && !matches!(mix.as_str(), "none" | "joule" | "hp25" | "hp4" | "hp25_excluded" | "hp25_excluded2" | "red1" | "red2" | "biomass" | "dens") {
            return;
        }
        let reds: Vec<(&str, Option<(f32, f32, f32)>, (f64, f64))> = if mix.starts_with("red") {
            vec![("default", None, (0.0, 1.3)), ("1,0,0", Some((1.0, 0.0, 0.0)), (1.0, 0.0)), ("0.5,0.5,0.1", Some((0.5, 0.5, 0.1)), (0.5, 0.5)), ("0,0,0.02", Some((0.0, 0.0, 0.02)), (0.0, 0.0))]
        } else {
            vec![("default", None, (0.0, 1.3))]
        };
        for (rn, ru, red) in reds {
            let fs = if ru.is_none() { subj::fset("PENINSULA").clone() } else { subj::reg_user("PENINSULA", ru, ru) };
            let cfg = format!("loc=PENINSULA red1/red2={rn} k_exp=0");
            let got = match fraction(text, &fs, 0.0, out) {
                Ok(g) => g,
                Err(_) => {
                    out.typed_errors += 1;
                    continue;
                }
            };
            out.compared += 1;
            let exp = closed_form(&p, red);
            let feats = [mix.as_str()];
            match (&exp, &got) {
                (Expect::Value(e), Ok(g)) => {
                    out.nontrivial = true;
                    out.regime(format!("value:{mix}"));
                    if (g - e).abs() > 1e-3 {
                        out.viol("equals_closed_form", &feats, &cfg, format!("{g}"), format!("{e} (params {p:?})"));
                    }
                }
                (Expect::Value(e), Err(m)) => out.viol("computable_case_reports_a_number", &feats, &cfg, format!("error: {m}"), format!("{e}")),
                (Expect::Error, Err(_)) => out.regime(format!("error:{}", p.get("demand").map(|s| s.as_str()).filter(|s| !s.starts_with("given")).unwrap_or(mix.as_str()))),
                (Expect::Error, Ok(g)) => out.viol("non_computable_case_reports_error", &feats, &cfg, format!("{g}"), "an error instead of a number"),
                (Expect::NoClosedForm, _) => out.regime("no_closed_form"),
            }
            // user factors given on top of a factor set read from a saved file (which has RED1 / RED2 lines already)
            if ru.is_some() {
                if let Some(fs2) = subj::reg_user_from_text("PENINSULA", ru, ru) {
                    if let Ok(g2) = fraction(text, &fs2, 0.0, out) {
                        out.compared += 1;
                        out.regime("user_factors_over_saved_file");
                        let same2 = match (&got, &g2) {
                            (Ok(x), Ok(y)) => (x - y).abs() <= 1e-4,
                            (Err(_), Err(_)) => true,
                            _ => false,
                        };
                        if !same2 {
                            out.viol("same_with_user_factors_over_a_saved_factor_file", &feats, &cfg, format!("{g2:?}"), format!("{got:?}"));
                        }
                    }
                }
            }
            if let Ok(g) = &got {
                if !(*g >= -1e-4 && *g <= 1.0 + 1e-4) && !matches!(exp, Expect::Error) {
                    out.viol("in_unit_interval", &feats, &cfg, format!("{g}"), "[0,1]");
                }
            }
            // histories of library calls (read part of the file, push the remaining component, normalize again; normalize
            // twice): the indicator of the component set reached must be the one of the whole file
            if rn == "default" {
                for v in crate::hist::variants(text, 6) {
                    let Ok(c) = &v.comps else { continue };
                    out.evals += 1;
                    let Ok(ep) = subj::eval(c, &fs, 0.0, 1.0, false) else { continue };
                    let g2 = cte::fraccion_renovable_acs_nrb(&ep).map(|x| x as f64).map_err(|e| format!("{e}"));
                    out.compared += 1;
                    out.regime("history_of_calls");
                    let same2 = match (&got, &g2) {
                        (Ok(x), Ok(y)) => (x - y).abs() <= 1e-4,
                        (Err(_), Err(_)) => true,
                        _ => false,
                    };
                    if !same2 {
                        out.viol("same_after_edit_and_renormalize", &[mix.as_str(), "history"], format!("{cfg}; {}", v.desc), format!("{g2:?}"), format!("{got:?}"));
                    }
                }
            }
            // the same closed form (with the matching factor on the PV share) when the balance uses load matching
            if let (Ok(Ok(g2)), Expect::Value(e2)) = (fraction_lm(text, &fs, 0.0, true, out), closed_form_lm(&p, red, true)) {
                out.compared += 1;
                out.regime("load_matching");
                if (g2 - e2).abs() > 1e-3 {
                    out.viol("equals_closed_form", &[mix.as_str(), "load_matching"], format!("{cfg} load_matching=true"), format!("{g2}"), format!("{e2}"));
                }
            }
            // repeated evaluation until the DHW carrier loop has been executed in all its orders
            {
                let mut orders: std::collections::BTreeSet<Vec<String>> = std::collections::BTreeSet::new();
                let mut nkeys = 0usize;
                for _ in 0..24 {
                    let _ = cteepbd::verif_hooks::take();
                    let r = fraction(text, &fs, 0.0, out);
                    let log = cteepbd::verif_hooks::take();
                    let o: Vec<String> = log.iter().filter(|(s, _)| *s == "cte::Q_nrb_non_biomass_an::carrier").map(|(_, i)| i.clone()).collect();
                    // the function is called twice per `fraction` (direct and through misc): keep the first traversal
                    let mut first: Vec<String> = vec![];
                    for x in o {
                        if first.contains(&x) {
                            break;
                        }
                        first.push(x);
                    }
                    nkeys = first.len();
                    if let Ok(g2) = &r {
                        let same = match (&got, g2) {
                            (Ok(x), Ok(y)) => (x - y).abs() <= 1e-4,
                            (Err(_), Err(_)) => true,
                            _ => false,
                        };
                        if !same {
                            out.viol("unchanged_by_repeating", &[mix.as_str()], format!("{cfg} carrier order {first:?}"), format!("{g2:?}"), format!("{got:?}"));
                        }
                    }
                    orders.insert(first);
                    let need = (1..=nkeys.min(3)).product::<usize>().max(1);
                    if nkeys < 2 || orders.len() >= need {
                        break;
                    }
                }
                if nkeys >= 2 {
                    out.regime("dhw_carrier_orders_closed");
                }
            }
            // invariance: k_exp, scaling, bystanders that are non-EPB or non-electric
            let same = |a: &Result<f64, String>, b: &Result<f64, String>| match (a, b) {
                (Ok(x), Ok(y)) => (x - y).abs() <= 1e-4,
                (Err(_), Err(_)) => true,
                _ => false,
            };
            for k in [0.5f32, 1.0] {
                if let Ok(g2) = fraction(text, &fs, k, out) {
                    out.compared += 1;
                    if !same(&got, &g2) {
                        out.viol("unchanged_by_k_exp", &feats, format!("{cfg} -> k_exp={k}"), format!("{g2:?}"), format!("{got:?}"));
                    }
                }
            }
            for c in [4.0, 0.25] {
                let t2 = cmp::map_values(text, &|v| v.iter().map(|x| x * c).collect());
                if let Ok(g2) = fraction(&t2, &fs, 0.0, out) {
                    out.compared += 1;
                    if !same(&got, &g2) {
                        out.viol("unchanged_by_scaling", &feats, format!("{cfg} scale={c}"), format!("{g2:?}"), format!("{got:?}"));
                    }
                }
            }
            let by = p.get("by").cloned().unwrap_or_default();
            if text.contains("# BY") {
                let t2: String = text.lines().filter(|l| !l.contains("# BY")).map(|l| format!("{l}\n")).collect();
                if let Ok(g2) = fraction(&t2, &fs, 0.0, out) {
                    out.compared += 1;
                    out.regime(format!("bystander:{by}"));
                    if !same(&got, &g2) {
                        out.viol("unchanged_by_other_consumption", &[by.as_str()], format!("{cfg} without bystander {by}"), format!("without: {g2:?}"), format!("with: {got:?}"));
                    }
                }
            }
        }
    }
}

fn com(l: Line, c: &'static str) -> Line {
    match l {
        Line::U { id, srv, car, v, .. } => Line::U { id, srv, car, v, com: c },
        Line::P { id, src, v, .. } => Line::P { id, src, v, com: c },
        Line::A { id, v, .. } => Line::A { id, v, com: c },
        Line::O { id, srv, v, .. } => Line::O { id, srv, v, com: c },
        o => o,
    }
}

fn pline(k: &str, v: impl std::fmt::Display) -> Line {
    Line::Raw(format!("# P:{k}={v}"))
}

fn fv(v: &[f64]) -> String {
    v.iter().map(|x| format!("{x}")).collect::<Vec<_>>().join(";")
}

fn cv(v: &[f64]) -> Vec<V> {
    v.iter().map(|x| (x * 100.0).round() as V).collect()
}

/// the model is built per demand vector (the supply lines depend on it): one Layered space per demand option
fn slots(d: &[f64], demand_kind: &'static str, rich: bool) -> Vec<Vec<Letter>> {
    let sc = |f: f64| -> Vec<f64> { d.iter().map(|x| x * f).collect() };
    let zero: Vec<f64> = vec![0.0; d.len()];
    // slot 0: demand
    let dl = match demand_kind {
        "none" => vec![],
        "zero" => vec![Line::D { srv: "ACS", v: cv(&zero) }],
        // the demand of two identical dwellings / of three zones, one line each (the lines add up to D)
        "given2" => vec![Line::D { srv: "ACS", v: cv(&sc(0.5)) }, Line::D { srv: "ACS", v: cv(&sc(0.5)) }],
        "given3" => vec![Line::D { srv: "ACS", v: cv(&sc(0.25)) }, Line::D { srv: "ACS", v: cv(&sc(0.25)) }, Line::D { srv: "ACS", v: cv(&sc(0.5)) }],
        _ => vec![Line::D { srv: "ACS", v: cv(d) }],
    };
    let mut s0 = vec![pline("D", fv(d)), pline("demand", demand_kind)];
    s0.extend(dl);
    let slot_d = vec![Letter::many(s0)];
    // slot 1: supply mix (system 1, and 2 where needed)
    let m = |name: &'static str, ls: Vec<Line>| -> Letter {
        let mut v = vec![pline("mix", name)];
        v.extend(ls);
        Letter::many(v)
    };
    let slot_mix = vec![
        m("none", vec![]),
        m("joule", vec![u(Some(1), "ACS", "ELECTRICIDAD", &cv(d))]),
        m("hp25", vec![u(Some(1), "ACS", "ELECTRICIDAD", &cv(&sc(0.4))), u(Some(1), "ACS", "EAMBIENTE", &cv(&sc(0.6)))]),
        m("hp4", vec![u(Some(1), "ACS", "ELECTRICIDAD", &cv(&sc(0.25))), u(Some(1), "ACS", "EAMBIENTE", &cv(&sc(0.75)))]),
        m("hp25_excluded", vec![u(Some(1), "ACS", "ELECTRICIDAD", &cv(&sc(0.4))), com(u(Some(1), "ACS", "EAMBIENTE", &cv(&sc(0.6))), "BdC CTEEPBD_EXCLUYE_SCOP_ACS")]),
        m("hp25_excluded2", vec![u(Some(1), "ACS", "ELECTRICIDAD", &cv(&sc(0.4))), com(u(Some(1), "ACS", "EAMBIENTE", &cv(&sc(0.6))), "BdC #1 (SCOP 2.0) CTEEPBD_EXCLUYE_SCOP_ACS")]),
        m(
            "hp3_60+hp2_40_excluded",
            vec![u(Some(1), "ACS", "ELECTRICIDAD", &cv(&sc(0.2))), u(Some(1), "ACS", "EAMBIENTE", &cv(&sc(0.4))), u(Some(2), "ACS", "ELECTRICIDAD", &cv(&sc(0.2))), com(u(Some(2), "ACS", "EAMBIENTE", &cv(&sc(0.2))), "BdC 2 CTEEPBD_EXCLUYE_SCOP_ACS")],
        ),
        m("solar25+gas", vec![u(Some(1), "ACS", "TERMOSOLAR", &cv(&sc(0.25))), u(Some(2), "ACS", "GASNATURAL", &cv(&sc(0.75)))]),
        m("solar50+gas", vec![u(Some(1), "ACS", "TERMOSOLAR", &cv(&sc(0.5))), u(Some(2), "ACS", "GASNATURAL", &cv(&sc(0.5)))]),
        m("solar75+gas", vec![u(Some(1), "ACS", "TERMOSOLAR", &cv(&sc(0.75))), u(Some(2), "ACS", "GASNATURAL", &cv(&sc(0.25)))]),
        m("red1_50+gas", vec![u(Some(1), "ACS", "RED1", &cv(&sc(0.5))), u(Some(2), "ACS", "GASNATURAL", &cv(&sc(0.5)))]),
        m("red1", vec![u(Some(1), "ACS", "RED1", &cv(d))]),
        m("red2", vec![u(Some(1), "ACS", "RED2", &cv(d))]),
        m("red1_40+solar60", vec![u(Some(1), "ACS", "TERMOSOLAR", &cv(&sc(0.6))), u(Some(2), "ACS", "RED1", &cv(&sc(0.4)))]),
        m("red2_50+hp4_50", vec![u(Some(1), "ACS", "ELECTRICIDAD", &cv(&sc(0.125))), u(Some(1), "ACS", "EAMBIENTE", &cv(&sc(0.375))), u(Some(2), "ACS", "RED2", &cv(&sc(0.5)))]),
        m("red1_25+red2_25+solar50", vec![u(Some(1), "ACS", "TERMOSOLAR", &cv(&sc(0.5))), u(Some(2), "ACS", "RED1", &cv(&sc(0.25))), u(Some(3), "ACS", "RED2", &cv(&sc(0.25)))]),
        m("biomass", vec![u(Some(1), "ACS", "BIOMASA", &cv(&sc(1.25)))]),
        m("dens", vec![u(Some(1), "ACS", "BIOMASADENSIFICADA", &cv(&sc(1.25)))]),
        m("biomass+solar50", vec![u(Some(1), "ACS", "TERMOSOLAR", &cv(&sc(0.5))), u(Some(2), "ACS", "BIOMASA", &cv(&sc(0.625)))]),
        m("biomass+dens_out", vec![u(Some(1), "ACS", "BIOMASA", &cv(&sc(0.625))), o(1, "ACS", &cv(&sc(0.5))), u(Some(2), "ACS", "BIOMASADENSIFICADA", &cv(&sc(0.625))), o(2, "ACS", &cv(&sc(0.5)))]),
        // the same biomass boiler written in two consumption lines (winter / summer) sharing one declared output
        m("gas+biomass_out_2lines", vec![u(Some(1), "ACS", "BIOMASA", &cv(&sc(0.375))), u(Some(1), "ACS", "BIOMASA", &cv(&sc(0.25))), o(1, "ACS", &cv(&sc(0.5))), u(Some(2), "ACS", "GASNATURAL", &cv(&sc(0.5)))]),
        m("gas+biomass_out", vec![u(Some(1), "ACS", "BIOMASA", &cv(&sc(0.625))), o(1, "ACS", &cv(&sc(0.5))), u(Some(2), "ACS", "GASNATURAL", &cv(&sc(0.5)))]),
        // two biomass boilers, each with its own declared output, beside gas; two pellet boilers and one log boiler beside gas
        m("gas+2biomass_out", vec![u(Some(1), "ACS", "BIOMASA", &cv(&sc(0.3125))), o(1, "ACS", &cv(&sc(0.25))), u(Some(3), "ACS", "BIOMASA", &cv(&sc(0.3125))), o(3, "ACS", &cv(&sc(0.25))), u(Some(2), "ACS", "GASNATURAL", &cv(&sc(0.5)))]),
        m(
            "gas+2dens_out+biomass_out",
            vec![
                u(Some(1), "ACS", "BIOMASADENSIFICADA", &cv(&sc(0.3125))), o(1, "ACS", &cv(&sc(0.25))), u(Some(3), "ACS", "BIOMASADENSIFICADA", &cv(&sc(0.3125))), o(3, "ACS", &cv(&sc(0.25))),
                u(Some(4), "ACS", "BIOMASA", &cv(&sc(0.3125))), o(4, "ACS", &cv(&sc(0.25))), u(Some(2), "ACS", "GASNATURAL", &cv(&sc(0.25))),
            ],
        ),
        m(
            "gas+biomass_out_heats",
            vec![u(Some(1), "ACS", "BIOMASA", &cv(&sc(0.625))), o(1, "ACS", &cv(&sc(0.5))), u(Some(1), "CAL", "BIOMASA", &cv(&sc(2.0))), o(1, "CAL", &cv(&sc(1.5))), u(Some(2), "ACS", "GASNATURAL", &cv(&sc(0.5))), o(2, "ACS", &cv(&sc(0.5)))],
        ),
        // a biomass boiler with declared output whose system also has solar collectors (the production that covers them carries
        // the boiler's system id), or an own PV field; gas beside it: range / invariance clauses only
        m("gas+biomass_out+solar_same_system", vec![u(Some(1), "ACS", "BIOMASA", &cv(&sc(0.5))), o(1, "ACS", &cv(&sc(0.5))), u(Some(1), "ACS", "TERMOSOLAR", &cv(&sc(0.1))), u(Some(2), "ACS", "GASNATURAL", &cv(&sc(0.5)))]),
        m("gas+dens_out+pv_same_system", vec![u(Some(1), "ACS", "BIOMASADENSIFICADA", &cv(&sc(0.625))), o(1, "ACS", &cv(&sc(0.5))), p(Some(1), "EL_INSITU", &cv(&sc(0.05))), u(Some(2), "ACS", "GASNATURAL", &cv(&sc(0.5)))]),
        // district network with (by default) no renewable share beside biomass without declared output: all nearby
        m("red1_50+biomass50", vec![u(Some(1), "ACS", "RED1", &cv(&sc(0.5))), u(Some(2), "ACS", "BIOMASA", &cv(&sc(0.625)))]),
        // liquid biofuel is not a nearby carrier: no renewable share for the indicator
        m("biofuel", vec![u(Some(1), "ACS", "BIOCARBURANTE", &cv(&sc(1.25)))]),
        m("solar40+biofuel", vec![u(Some(1), "ACS", "TERMOSOLAR", &cv(&sc(0.4))), u(Some(2), "ACS", "BIOCARBURANTE", &cv(&sc(0.75)))]),
        // two biomass boilers, only one with declared output, beside gas: not computable
        m("2biomass_oneout+gas_noout", vec![u(Some(1), "ACS", "BIOMASA", &cv(&sc(0.3125))), o(1, "ACS", &cv(&sc(0.25))), u(Some(3), "ACS", "BIOMASA", &cv(&sc(0.3125))), u(Some(2), "ACS", "GASNATURAL", &cv(&sc(0.5)))]),
        m("biomass+gas_noout", vec![u(Some(1), "ACS", "BIOMASA", &cv(&sc(0.625))), u(Some(2), "ACS", "GASNATURAL", &cv(&sc(0.5)))]),
        m("biomass+joule_noout", vec![u(Some(1), "ACS", "BIOMASA", &cv(&sc(0.625))), u(Some(2), "ACS", "ELECTRICIDAD", &cv(&sc(0.5)))]),
    ];
    // slot 2: PV
    let mut pvs: Vec<(&str, Vec<f64>)> = vec![("none", vec![]), ("partial", vec![10.0; d.len()]), ("surplus", vec![500.0; d.len()]), ("one_step", { let mut v = vec![0.0; d.len()]; v[d.len() - 1] = 500.0; v })];
    if rich {
        pvs.push(("first_step", { let mut v = vec![0.0; d.len()]; v[0] = 35.0; v }));
        pvs.push(("tiny", vec![0.5; d.len()]));
        pvs.push(("ramp", (0..d.len()).map(|i| 25.0 * i as f64).collect()));
    }
    let slot_pv = pvs
        .into_iter()
        .map(|(n, v)| {
            let mut l = vec![pline("pv", n), pline("pvv", fv(&v))];
            if !v.is_empty() {
                l.push(p(Some(0), "EL_INSITU", &cv(&v)));
            }
            Letter::many(l)
        })
        .collect();
    // slot 3: auxiliaries of the DHW system 1 (proportional to its demand profile, or not)
    let auxs: Vec<(&str, Vec<f64>)> = vec![("none", vec![]), ("prop", sc(0.1)), ("nonprop", { let mut v = vec![0.0; d.len()]; v[0] = 20.0; v }), ("prop+out", sc(0.1)), ("two_lines", sc(0.1))];
    let slot_aux = auxs
        .into_iter()
        .map(|(n, v)| {
            let mut l = vec![pline("aux", n), pline("auxv", fv(&v))];
            if n == "two_lines" {
                // two pumps: the same auxiliaries in two lines (0.07 D and 0.03 D, hundredths of kWh)
                let v1 = cv(&sc(0.07));
                let v2: Vec<V> = cv(&v).iter().zip(&v1).map(|(t, x)| t - x).collect();
                l = vec![pline("aux", "prop"), pline("auxv", fv(&v)), pline("auxlines", 2)];
                l.push(a(Some(1), &v1));
                l.push(a(Some(1), &v2));
            } else if !v.is_empty() {
                l.push(a(Some(1), &cv(&v)));
            }
            if n == "prop+out" {
                // the DHW output of system 1 declared too (needed when the system also has non-EPB uses)
                l.push(o(1, "ACS", &cv(d)));
            }
            Letter::many(l)
        })
        .collect();
    // slot 4: bystanders
    let mk = |n: &'static str, ls: Vec<Line>, ilu: Vec<f64>| -> Letter {
        let mut l = vec![pline("by", n), pline("iluv", fv(&ilu))];
        l.extend(ls);
        Letter::many(l)
    };
    let mut slot_by = vec![
        mk("none", vec![], vec![]),
        mk("nepb_el", vec![com(u(Some(9), "NEPB", "ELECTRICIDAD", &cv(&vec![50.0; d.len()])), "BY")], vec![]),
        mk("nepb_gas", vec![com(u(Some(9), "NEPB", "GASNATURAL", &cv(&vec![50.0; d.len()])), "BY")], vec![]),
        mk("nepb_el_same_system", vec![com(u(Some(1), "NEPB", "ELECTRICIDAD", &cv(&vec![50.0; d.len()])), "BY")], vec![]),
        mk("cal_gas", vec![com(u(Some(9), "CAL", "GASNATURAL", &cv(&sc(0.5))), "BY")], vec![]),
        mk("cal_biomass", vec![com(u(Some(9), "CAL", "BIOMASA", &cv(&vec![40.0; d.len()])), "BY")], vec![]),
        mk("ilu_el", vec![u(Some(9), "ILU", "ELECTRICIDAD", &cv(&vec![30.0; d.len()]))], vec![30.0; d.len()]),
    ];
    if rich {
        // pairs of bystanders (the invariance must hold for their combination too)
        slot_by.push(mk("nepb_el+cal_gas", vec![com(u(Some(9), "NEPB", "ELECTRICIDAD", &cv(&vec![50.0; d.len()])), "BY"), com(u(Some(8), "CAL", "GASNATURAL", &cv(&sc(0.5))), "BY")], vec![]));
        slot_by.push(mk("nepb_gas+ilu_el", vec![com(u(Some(9), "NEPB", "GASNATURAL", &cv(&vec![50.0; d.len()])), "BY"), u(Some(8), "ILU", "ELECTRICIDAD", &cv(&vec![30.0; d.len()]))], vec![30.0; d.len()]));
        slot_by.push(mk("cal_biomass+ilu_el", vec![com(u(Some(9), "CAL", "BIOMASA", &cv(&vec![40.0; d.len()])), "BY"), u(Some(8), "ILU", "ELECTRICIDAD", &cv(&vec![30.0; d.len()]))], vec![30.0; d.len()]));
        slot_by.push(mk("ref_red1+ven_el", vec![com(u(Some(9), "REF", "RED1", &cv(&vec![40.0; d.len()])), "BY"), u(Some(8), "VEN", "ELECTRICIDAD", &cv(&vec![12.0; d.len()]))], vec![12.0; d.len()]));
    }
    vec![slot_d, slot_mix, slot_pv, slot_aux, slot_by]
}

/// the DHW parameter space as a construction model for other checks (C16 judges it for panics only)
pub fn construction_slots(quick: bool) -> Vec<(&'static str, Vec<Vec<Letter>>)> {
    let mut v = vec![("D=(120,120)", slots(&[120.0, 120.0], "given", false)), ("D=(20,40,180) three steps", slots(&[20.0, 40.0, 180.0], "given", false))];
    if !quick {
        v.push(("no demand line", slots(&[120.0, 120.0], "none", false)));
        v.push(("D=(200,0,40) rich", slots(&[200.0, 0.0, 40.0], "given", true)));
    }
    v
}

pub fn run(ctx: &Ctx) -> i32 {
    let shared = Shared::new("C15", ctx);
    let mut models: Vec<(&str, Vec<f64>, &'static str)> = vec![("D=(120,120)", vec![120.0, 120.0], "given"), ("D=(60,180)", vec![60.0, 180.0], "given"), ("no demand line", vec![120.0, 120.0], "none"), ("zero demand", vec![120.0, 120.0], "zero")];
    {
        models.push(("D=(240) one step", vec![240.0], "given"));
        models.push(("D=(20,40,180) three steps", vec![20.0, 40.0, 180.0], "given"));
        models.push(("D=12 monthly", (0..12).map(|i| 100.0 + 10.0 * i as f64).collect(), "given"));
        models.push(("D=(120,120) in two equal lines", vec![120.0, 120.0], "given2"));
        models.push(("D=(60,180,20) in three lines (1/4, 1/4, 1/2)", vec![60.0, 180.0, 20.0], "given3"));
        models.push(("D=12 monthly irregular, auxiliaries in two lines", vec![93.17, 87.31, 101.43, 77.77, 69.03, 55.51, 41.29, 39.87, 58.13, 71.71, 88.89, 97.53], "given"));
    }
    for (name, d, kind) in models {
        explore(ctx, &format!("DHW layered (demand x mix x PV x aux x bystander), {name}"), Layered { slots: slots(&d, kind, false), bases: alpha::bases(false) }, C15, shared.clone());
    }
    // profiles with irregular hundredths over 24 steps: sums taken in different orders differ in their last bits
    // (auxiliaries in one and in two lines, no PV, no bystander: 2 x 20 states per profile)
    let nprof: u64 = if ctx.quick() { 150 } else { 1500 };
    for k in 0..nprof {
        let d: Vec<f64> = (0..24u64).map(|i| 30.0 + (((i * 37 + k * 101 + i * i * (k + 3)) % 9973) % 977) as f64 * 0.37 + ((i * 7 + k) % 100) as f64 / 100.0).map(|x| (x * 100.0).round() / 100.0).collect();
        let mut sl = slots(&d, "given", false);
        sl[2].truncate(1);
        sl[4].truncate(1);
        let aux = std::mem::take(&mut sl[3]);
        sl[3] = aux.into_iter().filter(|l| l.lines.iter().any(|x| matches!(x, Line::Raw(t) if t == "# P:aux=prop"))).collect();
        explore(ctx, "DHW layered NARROW: 24-step irregular profiles, auxiliaries in one and in two lines", Layered { slots: sl, bases: alpha::bases(false) }, C15, shared.clone());
    }
    if !ctx.quick() {
        let more: Vec<(&str, Vec<f64>, &'static str)> = vec![("D=(120,120)", vec![120.0, 120.0], "given"), ("D=(200,0,40) a step without demand", vec![200.0, 0.0, 40.0], "given"), ("D=(20,40,180)", vec![20.0, 40.0, 180.0], "given"), ("D=24 steps", (0..24).map(|i| 10.0 + ((i * 7) % 11) as f64 * 9.0).collect(), "given"), ("no demand line", vec![60.0, 180.0], "none"), ("zero demand", vec![60.0, 180.0], "zero")];
        for (name, d, kind) in more {
            explore(ctx, &format!("DHW layered RICH (7 PV shapes, 10 bystander sets), {name}"), Layered { slots: slots(&d, kind, true), bases: alpha::bases(false) }, C15, shared.clone());
        }
    }
    finish(
        ctx,
        &shared,
        &C15,
        Finish {
            level: "model_checking",
            rule: "DHW layered model in parameter space: demand {2 vectors, not declared, zero} x 18 supply mixes (Joule, heat pump SCOP 2.5/4, solar+gas, RED1/RED2 x 3 factor pairs, biomass, densified, biomass+solar, two biomasses with outputs, gas+biomass with outputs (also heating), 2 non-computable mixes, none) x PV {none, partial, surplus, one step} x auxiliaries {none, proportional, not proportional} x bystanders {none, non-EPB electricity/gas, heating gas/biomass, lighting electricity}; every state evaluated at k_exp {0,0.5,1}, scaled x4 and x1/4, and without its bystander; non-trivial = a closed-form value was compared".into(),
            assumptions: strs(&[
                "closed form computed from the generator's parameters, 1e-3",
                "with auxiliaries that are not proportional to the DHW electricity the property does not fix the reading of the PV share: only range / invariance / error clauses apply",
                "neither demand nor supply declared: documented as 0; error expected only when DHW is supplied",
                "closed forms are evaluated without and with load matching (the matching factor enters the PV share only)", "every state is re-evaluated under successive hash keys until the DHW carrier loop (hooked) has run in all orders of its <= 3 keys",
            ]),
            required_regimes: strs(&["value:joule", "value:hp25", "value:solar50+gas", "value:red1", "value:biomass", "value:biomass+dens_out", "value:gas+biomass_out_heats", "value:red1_40+solar60", "value:red2_50+hp4_50", "load_matching", "dhw_carrier_orders_closed", "error:none", "error:zero", "error:biomass+gas_noout", "error:biomass+joule_noout", "bystander:nepb_el", "bystander:cal_biomass", "no_closed_form"]),
            extra: serde_json::json!({}),
        },
    )
}

pub fn replay(path: &str) -> i32 {
    replay_file("C15", &C15, path)
}
