//! C01 Energy is conserved per carrier and time step.

use std::collections::BTreeMap;

use cteepbd::types::{Energy, EnergyPerformance, HasValues};

use crate::alpha::{self, Rich};
use crate::core::*;
use crate::model::*;
use crate::subj::{self, close};

#[derive(Clone, Copy)]
pub struct C01;

fn sumv(v: &[f32]) -> f64 {
    v.iter().map(|x| *x as f64).sum()
}

pub fn check_ep(ep: &EnergyPerformance, cfg: &str, out: &mut Out) {
    let mag = subj::magnitude(&ep.components, &ep.wfactors.clone());
    let t = subj::tol(mag);
    let n = ep.components.data.iter().filter(|c| !c.is_out()).map(|c| c.num_steps()).next().unwrap_or(0);

    // sums taken by the harness from the (normalized) component list the library evaluated
    let mut in_epus: BTreeMap<String, Vec<f64>> = BTreeMap::new();
    let mut in_nepus: BTreeMap<String, Vec<f64>> = BTreeMap::new();
    let mut in_cgn: BTreeMap<String, Vec<f64>> = BTreeMap::new();
    let mut in_prod: BTreeMap<(String, String), Vec<f64>> = BTreeMap::new();
    let add = |m: &mut Vec<f64>, v: &[f32]| {
        if m.len() < v.len() {
            m.resize(v.len(), 0.0);
        }
        for (i, x) in v.iter().enumerate() {
            m[i] += *x as f64;
        }
    };
    for c in &ep.components.data {
        match c {
            Energy::Used(e) => {
                let cr = format!("{}", e.carrier);
                let srv = format!("{}", e.service);
                let tgt = if srv == "NEPB" {
                    &mut in_nepus
                } else if srv == "COGEN" {
                    &mut in_cgn
                } else {
                    &mut in_epus
                };
                add(tgt.entry(cr).or_default(), &e.values);
            }
            Energy::Aux(e) => {
                let srv = format!("{}", e.service);
                // auxiliaries of a system without EPB service keep a non-EPB service tag (NEPB, COGEN): non-EPB use
                let tgt = if srv == "NEPB" || srv == "COGEN" { &mut in_nepus } else { &mut in_epus };
                add(tgt.entry("ELECTRICIDAD".into()).or_default(), &e.values);
            }
            Energy::Prod(e) => {
                let src = format!("{}", e.source);
                let cr = match src.as_str() {
                    "EL_INSITU" | "EL_COGEN" => "ELECTRICIDAD",
                    "TERMOSOLAR" => "TERMOSOLAR",
                    _ => "EAMBIENTE",
                };
                add(in_prod.entry((cr.to_string(), src)).or_default(), &e.values);
            }
            Energy::Out(_) => {}
        }
    }

    for (cr, b) in &ep.balance_cr {
        let crs = format!("{cr}");
        let len = b.used.epus_t.len();
        let mut fail = |clause: &str, step: Option<usize>, obs: f64, exp: f64, out: &mut Out| {
            out.viol(
                clause,
                &[],
                cfg,
                format!("{crs} step {:?}: {obs}", step),
                format!("{exp} (tol {t:.2e})"),
            );
        };
        // all vectors have the same length
        for (name, v) in [
            ("used.nepus_t", &b.used.nepus_t),
            ("used.cgnus_t", &b.used.cgnus_t),
            ("prod.t", &b.prod.t),
            ("prod.epus_t", &b.prod.epus_t),
            ("exp.t", &b.exp.t),
            ("exp.grid_t", &b.exp.grid_t),
            ("exp.nepus_t", &b.exp.nepus_t),
            ("del.grid_t", &b.del.grid_t),
            ("f_match", &b.f_match),
        ] {
            if v.len() != len {
                out.viol("vector_length", &[], cfg, format!("{crs} {name} has {} steps", v.len()), format!("{len}"));
                return;
            }
        }
        if n != 0 && len != n {
            out.viol("vector_length", &[], cfg, format!("{crs} has {len} steps"), format!("{n}"));
        }
        for i in 0..len {
            // per-step identities are judged against the magnitude of what enters THAT step of this carrier (a surplus of
            // 0.25 kWh in December is not noise because January moves 1e6 kWh)
            let stepmag: f64 = [&in_epus, &in_nepus, &in_cgn].iter().map(|m| m.get(&crs).and_then(|v| v.get(i)).copied().unwrap_or(0.0).abs()).sum::<f64>()
                + in_prod.iter().filter(|((c, _), _)| *c == crs).map(|(_, v)| v.get(i).copied().unwrap_or(0.0).abs()).sum::<f64>();
            let t = t.min(2e-5 * stepmag + 1e-6);
            let prod = b.prod.t[i] as f64;
            let pe = b.prod.epus_t[i] as f64;
            let ex = b.exp.t[i] as f64;
            let exn = b.exp.nepus_t[i] as f64;
            let exg = b.exp.grid_t[i] as f64;
            let us = b.used.epus_t[i] as f64;
            let nus = b.used.nepus_t[i] as f64;
            let dg = b.del.grid_t[i] as f64;
            out.compared += 1;
            let by_src: f64 = b.prod.by_src_t.values().map(|v| v.get(i).copied().unwrap_or(f32::NAN) as f64).sum();
            if !close(prod, by_src, t) {
                fail("prod_eq_sum_sources", Some(i), prod, by_src, out);
            }
            if !close(prod, pe + ex, t) {
                fail("prod_eq_used_plus_exported", Some(i), prod, pe + ex, out);
            }
            if !close(ex, exn + exg, t) {
                fail("exp_eq_nepus_plus_grid", Some(i), ex, exn + exg, out);
            }
            if !close(us, pe + dg, t) {
                fail("use_eq_prodused_plus_grid", Some(i), us, pe + dg, out);
            }
            for (name, x) in [("prod", prod), ("prod.epus", pe), ("exp", ex), ("exp.nepus", exn), ("exp.grid", exg), ("used.epus", us), ("used.nepus", nus), ("del.grid", dg), ("used.cgnus", b.used.cgnus_t[i] as f64)] {
                if !(x >= -t) {
                    fail(&format!("nonneg:{name}"), Some(i), x, 0.0, out);
                }
            }
            if !(pe <= us.min(prod) + t) {
                fail("prodused_le_min_use_prod", Some(i), pe, us.min(prod), out);
            }
            if !(exn <= nus + t) {
                fail("exp_nepus_le_nepus", Some(i), exn, nus, out);
            }
            for (src, v) in &b.prod.by_src_t {
                let pj = v[i] as f64;
                let uj = b.prod.epus_by_src_t.get(src).and_then(|x| x.get(i)).copied().map(|x| x as f64);
                let ej = b.exp.by_src_t.get(src).and_then(|x| x.get(i)).copied().map(|x| x as f64);
                match (uj, ej) {
                    (Some(uj), Some(ej)) => {
                        if !close(pj, uj + ej, t) {
                            fail(&format!("source_split:{src}"), Some(i), pj, uj + ej, out);
                        }
                        if !(uj >= -t) || !(ej >= -t) || !(pj >= -t) {
                            fail(&format!("nonneg_source:{src}"), Some(i), uj.min(ej).min(pj), 0.0, out);
                        }
                    }
                    _ => fail(&format!("source_split_missing:{src}"), Some(i), f64::NAN, pj, out),
                }
            }
            // against the inputs
            let e_in = in_epus.get(&crs).and_then(|v| v.get(i)).copied().unwrap_or(0.0);
            if !close(us, e_in, t) {
                fail("used_epus_eq_input", Some(i), us, e_in, out);
            }
            let n_in = in_nepus.get(&crs).and_then(|v| v.get(i)).copied().unwrap_or(0.0);
            if !close(nus, n_in, t) {
                fail("used_nepus_eq_input", Some(i), nus, n_in, out);
            }
            let c_in = in_cgn.get(&crs).and_then(|v| v.get(i)).copied().unwrap_or(0.0);
            if !close(b.used.cgnus_t[i] as f64, c_in, t) {
                fail("used_cgnus_eq_input", Some(i), b.used.cgnus_t[i] as f64, c_in, out);
            }
            for (src, v) in &b.prod.by_src_t {
                let p_in = in_prod.get(&(crs.clone(), format!("{src}"))).and_then(|v| v.get(i)).copied().unwrap_or(0.0);
                if !close(v[i] as f64, p_in, t) {
                    fail(&format!("prod_src_eq_input:{src}"), Some(i), v[i] as f64, p_in, out);
                }
            }
        }
        // a declared production source may not vanish
        for ((c, s), v) in &in_prod {
            if *c == crs && v.iter().any(|x| *x != 0.0) && !b.prod.by_src_t.keys().any(|k| format!("{k}") == *s) {
                fail(&format!("prod_src_missing:{s}"), None, 0.0, v.iter().sum(), out);
            }
        }
        // annual = sum of steps
        let ta = t * len.max(1) as f64;
        for (name, an, v) in [
            ("used.epus", b.used.epus_an, &b.used.epus_t),
            ("used.nepus", b.used.nepus_an, &b.used.nepus_t),
            ("used.cgnus", b.used.cgnus_an, &b.used.cgnus_t),
            ("prod", b.prod.an, &b.prod.t),
            ("prod.epus", b.prod.epus_an, &b.prod.epus_t),
            ("exp", b.exp.an, &b.exp.t),
            ("exp.grid", b.exp.grid_an, &b.exp.grid_t),
            ("exp.nepus", b.exp.nepus_an, &b.exp.nepus_t),
            ("del.grid", b.del.grid_an, &b.del.grid_t),
        ] {
            out.compared += 1;
            if !close(an as f64, sumv(v), ta) {
                fail(&format!("annual_eq_sum_steps:{name}"), None, an as f64, sumv(v), out);
            }
        }
        for (src, v) in &b.prod.by_src_t {
            for (nm, an) in [("by_src", b.prod.by_src_an.get(src)), ("epus_by_src", b.prod.epus_by_src_an.get(src)), ("exp.by_src", b.exp.by_src_an.get(src))] {
                let vt = match nm {
                    "by_src" => Some(v),
                    "epus_by_src" => b.prod.epus_by_src_t.get(src),
                    _ => b.exp.by_src_t.get(src),
                };
                match (an, vt) {
                    (Some(an), Some(vt)) => {
                        if !close(*an as f64, sumv(vt), ta) {
                            fail(&format!("annual_eq_sum_steps:{nm}:{src}"), None, *an as f64, sumv(vt), out);
                        }
                    }
                    _ => fail(&format!("annual_missing:{nm}:{src}"), None, f64::NAN, 0.0, out),
                }
            }
        }
    }
    // a carrier with inputs must have a balance
    for cr in in_epus.keys().chain(in_nepus.keys()).chain(in_cgn.keys()).chain(in_prod.keys().map(|(c, _)| c)) {
        if !ep.balance_cr.keys().any(|k| format!("{k}") == *cr) {
            out.viol("carrier_missing", &[], cfg, format!("no balance for {cr}"), "a balance per carrier with declared flows");
        }
    }
}

pub fn regimes(ep: &EnergyPerformance, lm: bool, out: &mut Out) {
    for (cr, b) in &ep.balance_cr {
        let el = format!("{cr}") == "ELECTRICIDAD";
        let pre = if el { "el" } else { "th" };
        if b.exp.grid_an > 0.0 {
            out.regime(format!("{pre}:export_grid"));
        }
        if b.exp.nepus_an > 0.0 {
            out.regime(format!("{pre}:export_nepus"));
        }
        if b.prod.an > 0.0 && b.used.epus_an > 0.0 {
            out.nontrivial = true;
            out.regime(format!("{pre}:self_use"));
        }
        if b.prod.by_src_an.len() > 1 {
            out.regime("el:pv+chp");
            for i in 0..b.prod.t.len() {
                let pv = b.prod.by_src_t.iter().find(|(k, _)| format!("{k}") == "EL_INSITU").map(|(_, v)| v[i]).unwrap_or(0.0);
                let us = b.used.epus_t[i];
                if pv < us && us <= b.prod.t[i] && pv > 0.0 {
                    out.regime("el:pv<use<=pv+chp");
                }
                if us > b.prod.t[i] && b.prod.t[i] > 0.0 {
                    out.regime("el:use>pv+chp");
                }
            }
        }
        if lm && b.f_match.iter().any(|f| *f < 1.0) {
            out.regime(format!("{pre}:f_match<1"));
        }
        if b.used.nepus_an > b.exp.nepus_an && b.exp.an > 0.0 {
            out.regime(format!("{pre}:nepus_exceeds_export"));
        }
        if b.used.cgnus_an > 0.0 {
            out.regime("cogen_fuel");
        }
    }
}

impl StateCheck for C01 {
    fn check(&self, text: &str, _lines: &[Line], out: &mut Out) {
        let comps = match subj::parse(text) {
            Ok(c) => c,
            Err(_) => {
                out.typed_errors += 1;
                return;
            }
        };
        if comps.data.is_empty() {
            return;
        }
        for fs in ["PENINSULA", "SKEW+COGEN"] {
            for lm in [false, true] {
                out.evals += 1;
                match subj::eval(&comps, subj::fset(fs), 0.0, 1.0, lm) {
                    Ok(ep) => {
                        let cfg = format!("factors={fs} load_matching={lm}");
                        check_ep(&ep, &cfg, out);
                        if fs == "PENINSULA" {
                            regimes(&ep, lm, out);
                        }
                    }
                    Err(_) => out.typed_errors += 1,
                }
            }
        }
    }
}

pub fn vals(ctx: &Ctx) -> Vec<V> {
    if ctx.quick() {
        vec![0, 100, 300]
    } else {
        vec![0, 100, 300]
    }
}

pub fn run(ctx: &Ctx) -> i32 {
    let shared = Shared::new("C01", ctx);
    let v = vals(ctx);
    explore(ctx, "VOCAB: every (service, carrier) pair / cogeneration fuel / production source added to a small building", Wide { alphabet: alpha::vocab_letters(), bases: alpha::vocab_base(), max_add: if ctx.quick() { 1 } else { 2 }, repeat: false }, C01, shared.clone());
    explore(ctx, "TINY: values around the absolute thresholds of the code (1e-3, 0.01 kWh), depth<=4", Wide { alphabet: alpha::tiny_letters(), bases: alpha::bases(false), max_add: 4, repeat: false }, C01, shared.clone());
    explore(ctx, "LONG: complete buildings with 13, 24, 31, 52, 365 and 8760 steps", Wide { alphabet: vec![], bases: alpha::long_bases(), max_add: 0, repeat: false }, C01, shared.clone());
    explore(ctx, "MAG12: 12-step lines of 1e6 kWh with a last step of hundredths of a kWh, depth<=4", Wide { alphabet: alpha::mag12_letters(), bases: alpha::bases(false), max_add: 4, repeat: false }, C01, shared.clone());
    if ctx.quick() {
        explore(ctx, "FLOW wide T=2 depth<=3", Wide { alphabet: alpha::flow(2, &v, Rich::Base), bases: alpha::bases(false), max_add: 3, repeat: false }, C01, shared.clone());
        explore(ctx, "FLOW wide T=3 {0,1,3} depth<=2", Wide { alphabet: alpha::flow(3, &v, Rich::Base), bases: alpha::bases(false), max_add: 2, repeat: false }, C01, shared.clone());
        explore(ctx, "FLOW wide T=2 decimal depth<=2", Wide { alphabet: alpha::flow(2, &[0, 1, 3333], Rich::Base), bases: alpha::bases(false), max_add: 2, repeat: false }, C01, shared.clone());
        explore(ctx, "FLOW wide T=2 large depth<=2", Wide { alphabet: alpha::flow(2, &[0, 123456, 100 << 20], Rich::Base), bases: alpha::bases(false), max_add: 2, repeat: false }, C01, shared.clone());
        let opts = vec![k(&[1, 0]), k(&[3, 1])];
        let mut slots = alpha::flow_slots(2, &opts, Rich::Base);
        slots.push(alpha::second_pv_slot(&opts));
        explore(ctx, "FLOW deep 10 slots x 3", Layered { slots, bases: alpha::bases(false) }, C01, shared.clone());
    } else {
        explore(ctx, "FLOW wide T=2 depth<=4", Wide { alphabet: alpha::flow(2, &v, Rich::Base), bases: alpha::bases(false), max_add: 4, repeat: false }, C01, shared.clone());
        explore(ctx, "FLOW wide(rich) T=2 depth<=3", Wide { alphabet: alpha::flow(2, &v, Rich::Wide), bases: alpha::bases(false), max_add: 3, repeat: true }, C01, shared.clone());
        explore(ctx, "FLOW wide T=3 {0,1,3} depth<=2", Wide { alphabet: alpha::flow(3, &v, Rich::Wide), bases: alpha::bases(false), max_add: 2, repeat: false }, C01, shared.clone());
        // decimal / large values (inexact in f32, near the code's absolute thresholds)
        explore(ctx, "FLOW wide T=2 decimal depth<=3", Wide { alphabet: alpha::flow(2, &[0, 1, 3333], Rich::Base), bases: alpha::bases(false), max_add: 3, repeat: false }, C01, shared.clone());
        explore(ctx, "FLOW wide T=2 large depth<=3", Wide { alphabet: alpha::flow(2, &[0, 123456, 100 << 20], Rich::Base), bases: alpha::bases(false), max_add: 3, repeat: false }, C01, shared.clone());
        let opts = vec![k(&[1, 0]), k(&[0, 3]), k(&[3, 1])];
        explore(ctx, "FLOW deep 12 slots x 4", Layered { slots: alpha::flow_slots(2, &opts, Rich::Wide), bases: alpha::bases(false) }, C01, shared.clone());
    }
    {
        let n = if ctx.quick() { 14 } else { 16 };
        explore(ctx, &format!("COMBO: complete 12-step buildings, {n} subsystems absent/present"), Layered { slots: alpha::combo_slots(n), bases: alpha::bases(false) }, C01, shared.clone());
    }
    explore(ctx, "seeded: shipped files + <=2 lines", Wide { alphabet: alpha::seeded_letters(), bases: alpha::shipped_bases(), max_add: if ctx.quick() { 1 } else { 2 }, repeat: false }, C01, shared.clone());
    finish(
        ctx,
        &shared,
        &C01,
        Finish {
            level: "model_checking",
            rule: "states = multisets of FLOW letters (every flow shape x every vector over the value set) up to the depth bound, plus layered and seeded models; each executed on the real parser+balance for 2 factor sets x load matching off/on; non-trivial = some carrier has both production and EPB use".into(),
            assumptions: vec![
                "values zero or >= 0.01 kWh (property domain); tolerance 2e-5*magnitude+1e-6 (f32 results)".into(),
                "flows compared with sums the harness takes from the normalized component list the library evaluated (normalization itself is C05/C06)".into(),
                "beyond the depth / step bounds nothing is claimed".into(),
            ],
            required_regimes: ["el:export_grid", "el:export_nepus", "el:self_use", "th:self_use", "th:export_grid", "el:pv+chp", "el:pv<use<=pv+chp", "el:use>pv+chp", "el:f_match<1", "cogen_fuel", "el:nepus_exceeds_export"].iter().map(|s| s.to_string()).collect(),
            extra: serde_json::json!({}),
        },
    )
}

pub fn replay(path: &str) -> i32 {
    replay_file("C01", &C01, path)
}
