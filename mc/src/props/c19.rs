//! C19 CLI options beat file metadata, which beats defaults; bad values are refused (E4).
//! Configuration-space exploration of the real binary against a small precedence model.

use std::collections::BTreeMap;
use std::time::Duration;

use cteepbd::types::{EnergyPerformance, MetaVec, RenNrenCo2};
use cteepbd::{cte, Components, UserWF};

use super::strs;
use crate::alpha;
use crate::cli;
use crate::core::*;
use crate::model::*;
use crate::subj;

#[derive(Clone, Copy)]
pub struct C19;

const BUILDING: &str = "CONSUMO, CAL, RED1, 10, 10\nCONSUMO, ACS, RED2, 5, 5\nCONSUMO, ILU, ELECTRICIDAD, 4, 1\nPRODUCCION, EL_INSITU, 2, 6\n";
const FACTOR_FILE: &str = "#META CTE_FUENTE: prueba\nELECTRICIDAD, RED, SUMINISTRO, A, 0.5, 2.0, 0.42\nRED1, RED, SUMINISTRO, A, 0.3, 0.9, 0.1\nRED2, RED, SUMINISTRO, A, 0.6, 0.6, 0.2\n";

#[derive(Clone, Debug, PartialEq)]
enum Val {
    Absent,
    Good(String),
    /// bad value and the exit codes that refusing it may produce
    Bad(String),
}

fn parse_val(s: &str) -> Val {
    match s.split_once(':') {
        Some(("good", v)) => Val::Good(v.to_string()),
        Some(("bad", v)) => Val::Bad(v.to_string()),
        _ => Val::Absent,
    }
}

fn rnc(s: &str) -> Option<[f64; 3]> {
    let v: Vec<f64> = s.split(|c| c == ',' || c == ' ').filter(|t| !t.trim().is_empty()).filter_map(|t| t.trim().parse::<f32>().ok().map(|x| x as f64)).collect();
    if v.len() == 3 {
        Some([v[0], v[1], v[2]])
    } else {
        None
    }
}

struct Expect {
    /// admissible exit codes
    codes: Vec<i32>,
    area: (String, f64),
    kexp: (String, f64),
    /// (origin label, parameter)
    factors: Option<(String, String)>,
    red1: Option<[f64; 3]>,
    red2: Option<[f64; 3]>,
    red1_given: bool,
    red2_given: bool,
    loc_used: Option<String>,
}

/// the precedence model: option > metadata > default; file > -l > metadata location
fn model(p: &BTreeMap<String, Val>) -> Expect {
    let g = |k: &str| p.get(k).cloned().unwrap_or(Val::Absent);
    let mut codes: Vec<i32> = vec![];
    let file = matches!(g("file"), Val::Good(_));
    // the option parser
    if let Val::Bad(_) = g("loc_opt") {
        codes.push(1);
    }
    // -f conflicts with -l in the option parser (--red1/--red2 are accepted next to -f: option > file)
    if file && g("loc_opt") != Val::Absent {
        codes.push(1);
    }
    // area and k_exp: a bad value anywhere is refused
    for k in ["area_opt", "area_meta", "k_opt", "k_meta"] {
        if let Val::Bad(_) = g(k) {
            codes.push(65);
        }
    }
    let pick = |opt: Val, meta: Val, default: f64| -> (String, f64) {
        match (opt, meta) {
            (Val::Good(v), _) => ("usuario".into(), v.parse::<f32>().unwrap_or(f32::NAN) as f64),
            (_, Val::Good(v)) => ("metadatos".into(), v.parse::<f32>().unwrap_or(f32::NAN) as f64),
            _ => ("predefinido".into(), default),
        }
    };
    let area = pick(g("area_opt"), g("area_meta"), 1.0);
    let kexp = pick(g("k_opt"), g("k_meta"), 0.0);
    // RED1 / RED2
    let mut silent_red = false;
    let mut red = |opt: Val, meta: Val, file_val: [f64; 3], codes: &mut Vec<i32>| -> (Option<[f64; 3]>, bool) {
        match (opt, meta) {
            (Val::Bad(_), _) => {
                codes.push(65);
                (None, true)
            }
            (Val::Good(v), m) => {
                if let Val::Bad(_) = m {
                    // option over bad metadata: the statement is silent, both outcomes admitted
                    silent_red = true;
                }
                (rnc(&v), true)
            }
            (Val::Absent, Val::Good(v)) => (rnc(&v), true),
            (Val::Absent, Val::Bad(_)) => {
                codes.push(65);
                (None, true)
            }
            (Val::Absent, Val::Absent) => (Some(if file { file_val } else { [0.0, 1.3, 0.3] }), false),
        }
    };
    let (red1, red1_given) = red(g("red1_opt"), g("red1_meta"), [0.3, 0.9, 0.1], &mut codes);
    let (red2, red2_given) = red(g("red2_opt"), g("red2_meta"), [0.6, 0.6, 0.2], &mut codes);
    // factor source
    let mut silent_loc = false;
    let (factors, loc_used) = if file {
        (Some(("archivo".to_string(), "f.csv".to_string())), None)
    } else {
        match (g("loc_opt"), g("loc_meta")) {
            (Val::Good(l), m) => {
                if let Val::Bad(_) = m {
                    silent_loc = true;
                }
                (Some(("usuario".to_string(), l.clone())), Some(l))
            }
            (Val::Absent, Val::Good(l)) => (Some(("metadatos".to_string(), l.clone())), Some(l)),
            (Val::Absent, Val::Bad(_)) => {
                codes.push(65);
                (None, None)
            }
            (Val::Absent, Val::Absent) => {
                codes.push(64);
                (None, None)
            }
            (Val::Bad(_), _) => (None, None),
        }
    };
    if codes.is_empty() {
        codes.push(0);
        if silent_red || silent_loc {
            codes.push(65);
        }
    }
    Expect { codes, area, kexp, factors, red1, red2, red1_given, red2_given, loc_used }
}

fn find_line<'a>(s: &'a str, start: &str) -> Option<&'a str> {
    s.lines().find(|l| l.starts_with(start))
}

fn nums(l: &str) -> Vec<f64> {
    l.split(|c: char| !(c.is_ascii_digit() || c == '.' || c == '-')).filter_map(|t| t.parse::<f64>().ok()).collect()
}

impl StateCheck for C19 {
    fn check(&self, text: &str, _l: &[Line], out: &mut Out) {
        if !cli::available() {
            return;
        }
        let mut p: BTreeMap<String, Val> = BTreeMap::new();
        let mut args: Vec<String> = vec!["-c".into(), "@c.csv".into()];
        for l in text.lines() {
            if let Some(kv) = l.strip_prefix("# P:") {
                if let Some((k, v)) = kv.split_once('=') {
                    p.insert(k.to_string(), parse_val(v));
                }
            }
            if let Some(a) = l.strip_prefix("# ARG:") {
                // (an empty argument is written as U+2400 in the state text)
                args.extend(a.split('\u{1f}').filter(|t| !t.is_empty()).map(|t| if t == "\u{2400}" { String::new() } else { t.to_string() }));
            }
        }
        if p.is_empty() {
            return;
        }
        let e = model(&p);
        args.extend(cli::sv(&["--json", "@o.json", "--oc", "@oc.csv"]));
        let o = cli::run(&args, &[("c.csv", text.as_bytes()), ("f.csv", FACTOR_FILE.as_bytes())], &["o.json", "oc.csv"], Some(11), Duration::from_secs(10));
        out.evals += 1;
        out.compared += 1;
        let shown: Vec<String> = args.iter().map(|a| if a.contains(' ') || a.is_empty() { format!("'{a}'") } else { a.clone() }).collect();
        let cfg = format!("cteepbd {}", shown.join(" "));
        let feats: Vec<String> = p.iter().filter(|(_, v)| matches!(v, Val::Bad(_))).map(|(k, _)| format!("{k}:bad")).collect();
        let fr: Vec<&str> = feats.iter().map(|s| s.as_str()).collect();
        if o.timed_out || o.signal.is_some() {
            out.viol("terminates_with_exit_code", &fr, &cfg, format!("timed_out={} signal={:?}", o.timed_out, o.signal), "exit code");
            return;
        }
        let code = o.status.unwrap_or(-1);
        out.regime(format!("exit:{code}"));
        if !e.codes.contains(&code) {
            let clause = if e.codes == vec![0] || (e.codes.contains(&0) && code != 0) { "valid_configuration_accepted" } else { "bad_value_refused" };
            out.viol(clause, &fr, &cfg, format!("exit {code}; stderr: {}", o.stderr.lines().next().unwrap_or("")), format!("exit in {:?}", e.codes));
            return;
        }
        let has_result = o.stdout.contains("** Eficiencia energética");
        if code != 0 {
            if has_result {
                out.viol("refusal_prints_no_result", &fr, &cfg, "result section printed", "no result");
            }
            return;
        }
        out.nontrivial = true;
        if !has_result {
            out.viol("valid_configuration_gives_result", &fr, &cfg, "no result section", "result");
            return;
        }
        // echo lines: value and origin
        let t = |printed: f64, actual: f64, dec: i32| (printed - actual).abs() <= 0.5 * 10f64.powi(-dec) * 1.001 + 1e-6 * actual.abs();
        match find_line(&o.stdout, "Área de referencia (") {
            Some(l) => {
                let origin = l.split('(').nth(1).and_then(|x| x.split(')').next()).unwrap_or("");
                let v = nums(l.split("]:").nth(1).unwrap_or("")).first().copied().unwrap_or(f64::NAN);
                out.regime(format!("area_from_{origin}"));
                if origin != e.area.0 || !t(v, e.area.1, 2) {
                    out.viol("area_echoed_with_origin", &fr, &cfg, l.to_string(), format!("({}) {}", e.area.0, e.area.1));
                }
            }
            None => out.viol("area_echoed_with_origin", &fr, &cfg, "no echo line", "echo"),
        }
        match find_line(&o.stdout, "Factor de exportación (") {
            Some(l) => {
                let origin = l.split('(').nth(1).and_then(|x| x.split(')').next()).unwrap_or("");
                let v = nums(l.split("]:").nth(1).unwrap_or("")).first().copied().unwrap_or(f64::NAN);
                out.regime(format!("kexp_from_{origin}"));
                if origin != e.kexp.0 || !t(v, e.kexp.1, 1) {
                    out.viol("kexp_echoed_with_origin", &fr, &cfg, l.to_string(), format!("({}) {}", e.kexp.0, e.kexp.1));
                }
            }
            None => out.viol("kexp_echoed_with_origin", &fr, &cfg, "no echo line", "echo"),
        }
        if let Some((orig, param)) = &e.factors {
            match find_line(&o.stdout, "Factores de paso (") {
                Some(l) => {
                    out.regime(format!("factors_from_{orig}"));
                    let ok = l.starts_with(&format!("Factores de paso ({orig}): ")) && l.trim_end().ends_with(param.as_str());
                    if !ok {
                        out.viol("factor_source_echoed_with_origin", &fr, &cfg, l.to_string(), format!("({orig}): {param}"));
                    }
                }
                None => out.viol("factor_source_echoed_with_origin", &fr, &cfg, "no echo line", "echo"),
            }
        }
        // --json: the values the results are computed with
        let get = |n: &str| o.files.iter().find(|(k, _)| k == n).and_then(|(_, b)| b.clone()).map(|b| String::from_utf8_lossy(&b).to_string());
        let Some(json) = get("o.json") else {
            out.viol("json_written", &fr, &cfg, "no --json file", "file");
            return;
        };
        let ep: EnergyPerformance = match serde_json::from_str(&json) {
            Ok(ep) => ep,
            Err(er) => {
                out.viol("json_written", &fr, &cfg, format!("unreadable: {er}"), "result");
                return;
            }
        };
        if (ep.arearef as f64 - e.area.1).abs() > 1e-6 * e.area.1.abs() {
            out.viol("area_used_in_results", &fr, &cfg, format!("json arearef={}", ep.arearef), format!("{}", e.area.1));
        }
        if (ep.k_exp as f64 - e.kexp.1).abs() > 1e-6 {
            out.viol("kexp_used_in_results", &fr, &cfg, format!("json k_exp={}", ep.k_exp), format!("{}", e.kexp.1));
        }
        for (c, exp) in [("RED1", &e.red1), ("RED2", &e.red2)] {
            let got = ep.wfactors.wdata.iter().find(|w| format!("{}", w.carrier) == c && format!("{}", w.source) == "RED" && format!("{}", w.dest) == "SUMINISTRO").map(|w| [w.ren as f64, w.nren as f64, w.co2 as f64]);
            if let Some(x) = exp {
                match got {
                    Some(g) if (0..3).all(|i| (g[i] - x[i]).abs() <= 1e-6) => {}
                    g => out.viol("red_factor_used_in_results", &fr, &cfg, format!("{c} = {g:?}"), format!("{x:?}")),
                }
            }
        }
        // results = library evaluation with the resolved values
        let lib = (|| -> Option<EnergyPerformance> {
            let c: Components = text.parse().ok()?;
            let user = UserWF { red1: if e.red1_given { e.red1.map(|x| RenNrenCo2::new(x[0] as f32, x[1] as f32, x[2] as f32)) } else { None }, red2: if e.red2_given { e.red2.map(|x| RenNrenCo2::new(x[0] as f32, x[1] as f32, x[2] as f32)) } else { None } };
            let f = match (&e.factors, &e.loc_used) {
                (Some((o, _)), _) if o == "archivo" => cte::wfactors_from_str(FACTOR_FILE, user, cte::CTE_USERWF).ok()?,
                (_, Some(l)) => cte::wfactors_from_loc(l, &cte::CTE_LOCWF_RITE2014, user, cte::CTE_USERWF).ok()?,
                _ => return None,
            };
            let f = f.strip(&c);
            subj::eval(&c, &f, e.kexp.1 as f32, e.area.1 as f32, false).ok()
        })();
        match lib {
            Some(l) => {
                let b = l.balance_m2.we.b;
                let a = ep.balance_m2.we.b;
                let tol = |x: f32| 0.00051 + 2e-5 * x.abs() as f64;
                if (a.ren - b.ren).abs() as f64 > tol(b.ren) || (a.nren - b.nren).abs() as f64 > tol(b.nren) || (a.co2 - b.co2).abs() as f64 > tol(b.co2) || (ep.rer - l.rer).abs() > 1e-4 {
                    out.viol("results_computed_with_the_value_used", &fr, &cfg, format!("cteepbd: C_ep {a:?} rer {}", ep.rer), format!("library with resolved values: C_ep {b:?} rer {}", l.rer));
                }
            }
            None => out.viol("results_computed_with_the_value_used", &fr, &cfg, "cteepbd gives a result", "the library refuses the resolved configuration"),
        }
        // --oc: the values used are recorded in the metadata of the emitted components
        let Some(oc) = get("oc.csv") else {
            out.viol("oc_written", &fr, &cfg, "no --oc file", "file");
            return;
        };
        match oc.parse::<Components>() {
            Ok(c2) => {
                let m = |k: &str| c2.get_meta(k);
                match m("CTE_AREAREF").and_then(|v| v.parse::<f64>().ok()) {
                    Some(v) if t(v, e.area.1, 2) => {}
                    v => out.viol("area_recorded_in_emitted_metadata", &fr, &cfg, format!("CTE_AREAREF = {v:?}"), format!("{}", e.area.1)),
                }
                match m("CTE_KEXP").and_then(|v| v.parse::<f64>().ok()) {
                    Some(v) if t(v, e.kexp.1, 1) => {}
                    v => out.viol("kexp_recorded_in_emitted_metadata", &fr, &cfg, format!("CTE_KEXP = {v:?}"), format!("{}", e.kexp.1)),
                }
                if let Some(l) = &e.loc_used {
                    if m("CTE_LOCALIZACION").as_deref() != Some(l.as_str()) {
                        let mut f2 = fr.clone();
                        f2.push(if matches!(p.get("loc_meta"), Some(Val::Good(_))) { "option_over_metadata_location" } else { "option_location_without_metadata" });
                        out.viol("location_recorded_in_emitted_metadata", &f2, &cfg, format!("CTE_LOCALIZACION = {:?}", m("CTE_LOCALIZACION")), l.clone());
                    }
                }
                for (k, given, exp) in [("CTE_RED1", e.red1_given, &e.red1), ("CTE_RED2", e.red2_given, &e.red2)] {
                    if given {
                        let got = m(k).and_then(|v| rnc(&v));
                        match (got, exp) {
                            (Some(g), Some(x)) if (0..3).all(|i| (g[i] - x[i]).abs() <= 0.00051) => {}
                            (g, x) => out.viol("red_factor_recorded_in_emitted_metadata", &fr, &cfg, format!("{k} = {g:?}"), format!("{x:?}")),
                        }
                    }
                }
            }
            Err(er) => out.viol("oc_written", &fr, &cfg, format!("unreadable: {er}"), "components"),
        }
    }
}

const US: char = '\u{1f}';

fn opt(name: &str, param: &str, state: &str, args: &[&str]) -> Letter {
    let mut l = vec![Line::Raw(format!("# P:{param}={state}"))];
    if !args.is_empty() {
        l.push(Line::Raw(format!("# ARG:{}", args.iter().map(|a| if a.is_empty() { "\u{2400}" } else { *a }).collect::<Vec<_>>().join(&US.to_string()))));
    }
    let _ = name;
    Letter::many(l)
}

fn meta(param: &str, state: &str, key: &str, val: Option<&str>) -> Letter {
    let mut l = vec![Line::Raw(format!("# P:{param}={state}"))];
    if let Some(v) = val {
        l.push(Line::Raw(format!("#META {key}: {v}")));
    }
    Letter::many(l)
}

/// legacy spelling of a metadata line (`#CTE_Area_ref: 10`)
fn legacy(param: &str, state: &str, line: &str) -> Letter {
    Letter::many(vec![Line::Raw(format!("# P:{param}={state}")), Line::Raw(line.to_string())])
}

struct Domains {
    area_opt: Vec<Letter>,
    area_meta: Vec<Letter>,
    k_opt: Vec<Letter>,
    k_meta: Vec<Letter>,
    loc_opt: Vec<Letter>,
    loc_meta: Vec<Letter>,
    red1_opt: Vec<Letter>,
    red1_meta: Vec<Letter>,
    red2_opt: Vec<Letter>,
    red2_meta: Vec<Letter>,
    file: Vec<Letter>,
    /// `-F`: do not simplify the factor set (must change nothing that the property speaks of)
    nosimp: Vec<Letter>,
}

fn domains() -> Domains {
    let o = |p: &str, kind: &str, v: &str, flag: &str| -> Letter {
        let st = format!("{kind}:{v}");
        if flag.starts_with("--") && flag.ends_with('=') {
            opt("", p, &st, &[&format!("{flag}{v}")])
        } else {
            opt("", p, &st, &[flag, v])
        }
    };
    Domains {
        area_opt: vec![opt("", "area_opt", "absent", &[]), o("area_opt", "good", "50", "-a"), o("area_opt", "good", "0.0011", "-a"), o("area_opt", "good", "1", "-a"), o("area_opt", "good", "1.0", "--arearef="), o("area_opt", "bad", "0.001", "-a"), o("area_opt", "bad", "0", "-a"), o("area_opt", "bad", "-5", "--arearef="), o("area_opt", "bad", "abc", "-a"), o("area_opt", "bad", "", "-a"), o("area_opt", "bad", " ", "--arearef="), o("area_opt", "bad", "NaN", "-a"), o("area_opt", "bad", "1 000", "-a"), o("area_opt", "bad", "100 m2", "--arearef=")],
        area_meta: vec![meta("area_meta", "absent", "", None), meta("area_meta", "good:200.5", "CTE_AREAREF", Some("200.5")), meta("area_meta", "good:50", "CTE_AREAREF", Some("50")), legacy("area_meta", "good:75.25", "#CTE_Area_ref: 75.25"), legacy("area_meta", "good:1e2", "  #META   CTE_AREAREF :  1e2  "), meta("area_meta", "good:50.0004", "CTE_AREAREF", Some("50.0004")), meta("area_meta", "bad:abc", "CTE_AREAREF", Some("abc")), meta("area_meta", "bad:0", "CTE_AREAREF", Some("0")), legacy("area_meta", "good:60", "#CTE_Area_ref: 60\n#META CTE_AREAREF: 60"), meta("area_meta", "bad:100 m2", "CTE_AREAREF", Some("100 m2")), meta("area_meta", "bad:1 000", "CTE_AREAREF", Some("1 000")), meta("area_meta", "bad:nan", "CTE_AREAREF", Some("nan")), meta("area_meta", "bad:1,5", "CTE_AREAREF", Some("1,5"))],
        k_opt: vec![opt("", "k_opt", "absent", &[]), o("k_opt", "good", "0.5", "-k"), o("k_opt", "good", "0", "-k"), o("k_opt", "good", "1", "-k"), o("k_opt", "bad", "1.01", "-k"), o("k_opt", "bad", "-0.1", "--kexp="), o("k_opt", "bad", "x", "-k"), o("k_opt", "bad", "", "-k"), o("k_opt", "bad", " ", "--kexp="), o("k_opt", "bad", "0.5 x", "-k"), o("k_opt", "bad", "NaN", "-k"), o("k_opt", "bad", "0,5", "--kexp=")],
        k_meta: vec![meta("k_meta", "absent", "", None), meta("k_meta", "good:0.7", "CTE_KEXP", Some("0.7")), meta("k_meta", "good:0.25", "CTE_KEXP", Some("0.25")), meta("k_meta", "good:0.5", "CTE_KEXP", Some("0.5")), legacy("k_meta", "good:0.3", "#CTE_kexp: 0.3"), meta("k_meta", "good:0", "CTE_KEXP", Some("0")), meta("k_meta", "good:1.0", "CTE_KEXP", Some("1.0")), meta("k_meta", "bad:2", "CTE_KEXP", Some("2")), meta("k_meta", "bad:x", "CTE_KEXP", Some("x")), legacy("k_meta", "good:0.4", "#META CTE_KEXP: 0.4\n#CTE_kexp: 0.4"), meta("k_meta", "bad:0.5 x", "CTE_KEXP", Some("0.5 x")), meta("k_meta", "bad:0,5", "CTE_KEXP", Some("0,5")), meta("k_meta", "bad:NaN", "CTE_KEXP", Some("NaN"))],
        loc_opt: vec![opt("", "loc_opt", "absent", &[]), o("loc_opt", "good", "PENINSULA", "-l"), o("loc_opt", "good", "CANARIAS", "-l"), o("loc_opt", "bad", "MARTE", "-l")],
        loc_meta: vec![meta("loc_meta", "absent", "", None), meta("loc_meta", "good:BALEARES", "CTE_LOCALIZACION", Some("BALEARES")), meta("loc_meta", "good:PENINSULA", "CTE_LOCALIZACION", Some("PENINSULA")), legacy("loc_meta", "good:CEUTAMELILLA", "#CTE_Localizacion: CEUTAMELILLA"), meta("loc_meta", "bad:LUNA", "CTE_LOCALIZACION", Some("LUNA"))],
        red1_opt: vec![opt("", "red1_opt", "absent", &[]), opt("", "red1_opt", "good:0.5 0.5 0.1", &["--red1", "0.5", "0.5", "0.1"]), opt("", "red1_opt", "good:0 1.3 0.3", &["--red1", "0", "1.3", "0.3"]), opt("", "red1_opt", "bad:a 1 1", &["--red1", "a", "1", "1"]), opt("", "red1_opt", "bad:NaN 1 1", &["--red1", "NaN", "1", "1"])],
        red1_meta: vec![meta("red1_meta", "absent", "", None), meta("red1_meta", "good:0.2, 0.8, 0.05", "CTE_RED1", Some("0.2, 0.8, 0.05")), meta("red1_meta", "good:0.5, 0.5, 0.1", "CTE_RED1", Some("0.5, 0.5, 0.1")), meta("red1_meta", "good:0, 1.3, 0.3", "CTE_RED1", Some("0, 1.3, 0.3")), meta("red1_meta", "bad:x, y", "CTE_RED1", Some("x, y")), meta("red1_meta", "bad:1, 2", "CTE_RED1", Some("1, 2")), meta("red1_meta", "bad:0.1, nan, 0.2", "CTE_RED1", Some("0.1, nan, 0.2"))],
        red2_opt: vec![opt("", "red2_opt", "absent", &[]), opt("", "red2_opt", "good:0.25 0.75 0.2", &["--red2", "0.25", "0.75", "0.2"]), opt("", "red2_opt", "good:0.0 1.3 0.3", &["--red2", "0.0", "1.3", "0.3"]), opt("", "red2_opt", "bad:1 b 1", &["--red2", "1", "b", "1"]), opt("", "red2_opt", "bad:0.5 0.5 NaN", &["--red2", "0.5", "0.5", "NaN"])],
        red2_meta: vec![meta("red2_meta", "absent", "", None), meta("red2_meta", "good:0.4, 0.6, 0.15", "CTE_RED2", Some("0.4, 0.6, 0.15")), meta("red2_meta", "good:0.25, 0.75, 0.2", "CTE_RED2", Some("0.25, 0.75, 0.2")), meta("red2_meta", "bad:nada", "CTE_RED2", Some("nada")), meta("red2_meta", "bad:NaN, 1, 1", "CTE_RED2", Some("NaN, 1, 1"))],
        file: vec![opt("", "file", "absent", &[]), opt("", "file", "good:f.csv", &["-f", "@f.csv"])],
        nosimp: vec![opt("", "nosimp", "absent", &[]), opt("", "nosimp", "good:on", &["-F"])],
    }
}

fn first2(v: &[Letter]) -> Vec<Letter> {
    v[..2].to_vec()
}

fn one(v: &[Letter], i: usize) -> Vec<Letter> {
    vec![v[i].clone()]
}

pub fn run(ctx: &Ctx) -> i32 {
    let shared = Shared::new("C19", ctx);
    if !cli::available() {
        eprintln!("MACHINERY: the cteepbd binary was not built");
        return 2;
    }
    let d = domains();
    let base = vec![("building".to_string(), BUILDING.to_string())];
    let ctx_loc = one(&d.loc_opt, 1);
    // M1: each parameter over its full domain (option x metadata), the others absent (location given by -l)
    let m1: Vec<(&str, Vec<Vec<Letter>>)> = vec![
        ("area", vec![d.area_opt.clone(), d.area_meta.clone(), ctx_loc.clone()]),
        ("k_exp", vec![d.k_opt.clone(), d.k_meta.clone(), ctx_loc.clone()]),
        ("location x file", vec![d.loc_opt.clone(), d.loc_meta.clone(), d.file.clone()]),
        ("RED1", vec![d.red1_opt.clone(), d.red1_meta.clone(), ctx_loc.clone(), d.nosimp.clone()]),
        ("RED2", vec![d.red2_opt.clone(), d.red2_meta.clone(), ctx_loc.clone(), d.nosimp.clone()]),
        ("RED1 metadata x file", vec![d.red1_meta.clone(), d.red2_meta.clone(), one(&d.file, 1), d.nosimp.clone()]),
        ("area x k_exp without simplification of the factors", vec![first2(&d.area_opt), first2(&d.area_meta), first2(&d.k_opt), first2(&d.k_meta), ctx_loc.clone(), one(&d.nosimp, 1)]),
    ];
    for (n, slots) in m1 {
        explore(ctx, &format!("full domain of {n} (option x metadata), others absent"), Layered { slots, bases: base.clone() }, C19, shared.clone());
    }
    // M2: the full product {absent, valid} for option and metadata of all five parameters x factors file
    let m2 = vec![first2(&d.area_opt), first2(&d.area_meta), first2(&d.k_opt), first2(&d.k_meta), first2(&d.loc_opt), first2(&d.loc_meta), first2(&d.red1_opt), first2(&d.red1_meta), first2(&d.red2_opt), first2(&d.red2_meta), d.file.clone(), d.nosimp.clone()];
    explore(ctx, "product {absent, valid}^10 x {no file, file} x {simplified factors, -F}", Layered { slots: m2, bases: base.clone() }, C19, shared.clone());
    {
        // M3: all pairs of parameters over their full domains
        let all: Vec<(&str, Vec<Letter>, Vec<Letter>)> = vec![("area", d.area_opt.clone(), d.area_meta.clone()), ("k", d.k_opt.clone(), d.k_meta.clone()), ("loc", d.loc_opt.clone(), d.loc_meta.clone()), ("red1", d.red1_opt.clone(), d.red1_meta.clone()), ("red2", d.red2_opt.clone(), d.red2_meta.clone())];
        for i in 0..all.len() {
            for j in i + 1..all.len() {
                let mut slots = vec![all[i].1.clone(), all[i].2.clone(), all[j].1.clone(), all[j].2.clone()];
                if all[i].0 != "loc" && all[j].0 != "loc" {
                    slots.push(ctx_loc.clone());
                }
                explore(ctx, &format!("pair {} x {} over full domains", all[i].0, all[j].0), Layered { slots, bases: base.clone() }, C19, shared.clone());
            }
        }
    }
    if !ctx.quick() {
        // M4: three choices for every option and metadata of all five parameters at once x factors file
        let first3 = |v: &[Letter]| v[..3].to_vec();
        let m4 = vec![first3(&d.area_opt), first3(&d.area_meta), first3(&d.k_opt), first3(&d.k_meta), first3(&d.loc_opt), first3(&d.loc_meta), first3(&d.red1_opt), first3(&d.red1_meta), first3(&d.red2_opt), first3(&d.red2_meta), d.file.clone()];
        explore(ctx, "product {absent, value 1, value 2 / bad}^10 x {no file, file}", Layered { slots: m4, bases: base.clone() }, C19, shared.clone());
    }
    let _ = alpha::bases(false);
    finish(
        ctx,
        &shared,
        &C19,
        Finish {
            level: "model_checking",
            rule: "configuration space of the real binary: for each of area, k_exp, location, RED1, RED2 the full domain option {absent, valid, boundary, out of range, non-numeric} x metadata {absent, valid (different from / equal to the option value), invalid} with the others absent; the full product {absent, valid}^10 x {no factors file, factors file} (2048 runs); thorough: all pairs of parameters over full domains; every run compared with a 60-line precedence model: exit code, origin label and value of the three echo lines, k_exp / arearef / RED factors in --json, metadata of --oc, results equal to a library evaluation with the resolved values; non-trivial = run accepted".into(),
            assumptions: strs(&[
                "values echoed or recorded are compared at the precision the program prints",
                "several bad values at once: any of their exit codes is accepted",
                "an option overriding invalid location / RED1 / RED2 metadata: the statement is silent, exit 0 and 65 are both admitted",
                "defaults of RED1/RED2 need not be recorded in the emitted metadata; a location is recorded when it is the one used",
                "negative option values are passed as --arearef=-5 (the option parser rejects '-a -5')",
            ]),
            required_regimes: strs(&["exit:0", "exit:1", "exit:64", "exit:65", "area_from_usuario", "area_from_metadatos", "area_from_predefinido", "kexp_from_usuario", "kexp_from_metadatos", "kexp_from_predefinido", "factors_from_archivo", "factors_from_usuario", "factors_from_metadatos"]),
            extra: serde_json::json!({}),
        },
    )
}

pub fn replay(path: &str) -> i32 {
    replay_file("C19", &C19, path)
}
