//! C09 Annual results do not depend on how time is laid out.

use super::{flow_models, strs, FlowSpec};
use crate::cmp::{self, show, step_index};
use crate::core::*;
use crate::model::*;
use crate::subj;
use crate::tree::{result_flat, Flat, Leaf};

#[derive(Clone, Copy)]
pub struct C09;

fn annual_only(p: &str) -> bool {
    cmp::is_step_path(p)
}

fn check_transform(base_ratios: bool, base: &Flat, text2: &str, what: &str, fs: &str, k: f32, lm: bool, mag: f64, map_step: &dyn Fn(usize) -> Vec<usize>, div: f64, out: &mut Out) {
    let cfg = format!("factors={fs} k_exp={k} load_matching={lm} transform={what}");
    let c2 = match subj::parse(text2) {
        Ok(c) => c,
        Err(e) => {
            out.viol("transformed_file_rejected", &[], &cfg, format!("{e}"), "parses like the original");
            return;
        }
    };
    out.evals += 1;
    let e2 = match subj::eval(&c2, subj::fset(fs), k, 1.0, lm) {
        Ok(e) => e,
        Err(e) => {
            out.viol("transformed_evaluation_fails", &[], &cfg, format!("{e}"), "evaluates like the original");
            return;
        }
    };
    let f2 = result_flat(&e2);
    let t = subj::tol(mag);
    out.compared += 1;
    let ratios = base_ratios && cmp::ratios_ok(&e2, mag);
    // annual figures are f32 sums over the steps: their rounding error grows with the number of steps
    // (8760 steps: 1.3e-4 relative), so the relative tolerance does too
    let steps2 = cmp::num_steps(text2) as f64;
    let rel = 1e-5f64.max(0.25 * steps2 * f32::EPSILON as f64);
    let t = t.max(rel * mag * 0.1);
    let d = cmp::cmp_flat_m(base, &f2, t, rel, mag, mag, &|p| annual_only(p) || (p.starts_with("rer") && !ratios), &|_, x| x);
    if !d.is_empty() {
        let (a, b) = show(&d);
        out.viol("annual_results_unchanged", &[what.split(':').next().unwrap_or("")], &cfg, format!("transformed: {b}"), format!("original: {a}"));
    }
    // per-step vectors follow the transformation
    let mut bad = 0;
    for (p, l) in base {
        let Some((stem, i)) = step_index(p) else { continue };
        let Leaf::Num(x) = l else { continue };
        let is_ratio = stem.ends_with(".f_match");
        for j in map_step(i) {
            let q = format!("{stem}[{j}]");
            let exp = if is_ratio { *x } else { *x / div };
            match f2.get(&q).and_then(|l| l.num()) {
                Some(y) if (y - exp).abs() <= t + 1e-5 * exp.abs() => {}
                other => {
                    bad += 1;
                    if bad <= 2 {
                        out.viol("step_vectors_follow_transformation", &[what.split(':').next().unwrap_or("")], &cfg, format!("{q}={other:?}"), format!("{p} -> {exp}"));
                    }
                }
            }
        }
    }
}

impl StateCheck for C09 {
    fn check(&self, text: &str, added: &[Line], out: &mut Out) {
        let comps = match subj::parse(text) {
            Ok(c) => c,
            Err(_) => {
                out.typed_errors += 1;
                return;
            }
        };
        if comps.data.is_empty() {
            return;
        }
        let n = cmp::num_steps(text);
        if n == 0 {
            return;
        }
        let perms: Vec<(String, Vec<usize>)> = if n <= 3 {
            cmp::permutations(n).into_iter().filter(|p| p.iter().enumerate().any(|(i, x)| i != *x)).map(|p| (format!("perm:{p:?}"), p)).collect()
        } else {
            let rot: Vec<usize> = (0..n).map(|i| (i + 1) % n).collect();
            let rev: Vec<usize> = (0..n).rev().collect();
            let mut v = vec![("perm:rotate".to_string(), rot), ("perm:reverse".to_string(), rev)];
            // hourly bases: rotation, reversal and one swap (each execution flattens some 10^6 per-step leaves)
            for a in if n >= 1000 { vec![n / 2] } else { vec![0, n / 2, n - 2] } {
                let mut s: Vec<usize> = (0..n).collect();
                s.swap(a, a + 1);
                v.push((format!("perm:swap{a}"), s));
            }
            v
        };
        // subdivisions: 2..4 on the small states; the 12-step files (as shipped, without added lines) also into 730 sub-steps and the 365-step bases
        // into 24 (both give the 8760 steps of hourly data), short bases also into 8
        let ms: &[usize] = if n <= 3 { &[2, 3, 4, 8] } else if n == 12 && added.is_empty() { &[2, 730] } else if n == 365 { &[2, 24] } else { &[2] };
        for (fs, k, lm) in [("PENINSULA", 0.0f32, false), ("PENINSULA", 1.0, true), ("SKEW", 1.0, false), ("SKEW+COGEN", 0.0, true)] {
            // hourly bases: the two configurations with load matching (the step-count sensitive code)
            if n >= 1000 && !lm {
                continue;
            }
            let f = subj::fset(fs);
            out.evals += 1;
            let Ok(e) = subj::eval(&comps, f, k, 1.0, lm) else {
                out.typed_errors += 1;
                continue;
            };
            let base = result_flat(&e);
            let mag = subj::magnitude(&comps, f);
            let base_ratios = cmp::ratios_ok(&e, mag);
            if e.balance_cr.values().any(|b| b.used.cgnus_an > 0.0) {
                out.regime("cogeneration");
                out.nontrivial = true;
            }
            if lm && e.balance_cr.values().any(|b| b.f_match.iter().any(|x| *x < 1.0)) {
                out.regime("load_matching_active");
            }
            for (name, perm) in &perms {
                // new[perm[i]] = old[i]
                let t2 = cmp::map_values(text, &|v| {
                    if v.len() != n {
                        return v.to_vec();
                    }
                    let mut w = vec![0.0; n];
                    for i in 0..n {
                        w[perm[i]] = v[i];
                    }
                    w
                });
                check_transform(base_ratios, &base, &t2, name, fs, k, lm, mag, &|i| vec![perm[i]], 1.0, out);
            }
            for &m in ms {
                let t2 = cmp::map_values(text, &|v| {
                    if v.len() != n {
                        return v.to_vec();
                    }
                    v.iter().flat_map(|x| std::iter::repeat(*x / m as f64).take(m)).collect()
                });
                out.regime(format!("subdivide:{m}"));
                check_transform(base_ratios, &base, &t2, &format!("subdivide:{m}"), fs, k, lm, mag, &|i| (0..m).map(|j| i * m + j).collect(), m as f64, out);
            }
        }
    }
}

/// multi-service systems with auxiliaries and outputs over three steps (a step without output, shares that differ
/// between steps): the per-step split of the auxiliaries is part of the time layout
fn aux3_letters() -> Vec<Letter> {
    let mut al = vec![];
    for (o1, o2) in [([3, 1, 0], [1, 3, 0]), ([0, 2, 2], [4, 0, 1]), ([1, 1, 1], [0, 0, 2])] {
        for av in [[1, 1, 1], [0, 2, 1]] {
            al.push(Letter::many(vec![u(Some(1), "ACS", "GASNATURAL", &k(&[3, 1, 2])), u(Some(1), "CAL", "GASNATURAL", &k(&[1, 3, 2])), o(1, "ACS", &k(&o1)), o(1, "CAL", &k(&o2)), a(Some(1), &k(&av))]));
        }
    }
    // a system whose delivered energy is a few hundredths of a kWh at some steps (stand-by months): dividing a
    // step must not take its outputs below anything the code treats as nothing
    al.push(Letter::many(vec![u(Some(3), "ACS", "GASNATURAL", &[300, 4, 200]), u(Some(3), "CAL", "GASNATURAL", &[100, 4, 200]), o(3, "ACS", &[250, 3, 100]), o(3, "CAL", &[80, 2, 150]), a(Some(3), &[100, 50, 100])]));
    al.push(Letter::one(u(Some(0), "ILU", "ELECTRICIDAD", &k(&[1, 2, 3]))));
    al.push(Letter::one(p(Some(0), "EL_INSITU", &k(&[3, 0, 1]))));
    al.push(Letter::many(vec![u(Some(2), "CAL", "ELECTRICIDAD", &k(&[1, 1, 0])), u(Some(2), "REF", "ELECTRICIDAD", &k(&[0, 1, 2])), o(2, "CAL", &k(&[2, 3, 0])), o(2, "REF", &[0, -100, -400]), a(Some(2), &k(&[1, 0, 1]))]));
    al
}

pub fn run(ctx: &Ctx) -> i32 {
    let shared = Shared::new("C09", ctx);
    explore(ctx, "AUX3: multi-service systems with auxiliaries over three steps, depth<=2", Wide { alphabet: aux3_letters(), bases: crate::alpha::bases(false), max_add: if ctx.quick() { 2 } else { 3 }, repeat: false }, C09, shared.clone());
    flow_models(ctx, &shared, C09, FlowSpec { quick_depth: 2, thorough_depth: 3, extra: vec![], deep: true, heavy_oracle: true, seeded: true, t3: true, valuesets: false });
    finish(
        ctx,
        &shared,
        &C09,
        Finish {
            level: "model_checking",
            rule: "every FLOW state x 4 (factors,k,load matching) x {all T! step permutations (12-step bases: rotation, reversal, 3 adjacent swaps), subdivision m in {2,3,4,8} (12-step bases: 2 and 730, 365-step bases: 2 and 24, i.e. up to 8760 steps)}; transformations applied to the FILE TEXT so that parsing and normalization are inside the relation; non-trivial = state with cogeneration".into(),
            assumptions: strs(&["annual leaves compared with 2e-5*magnitude+1e-6 (+1e-5 relative)", "subdivided values are written with f32 round-trip precision"]),
            required_regimes: strs(&["cogeneration", "load_matching_active", "subdivide:2", "subdivide:3", "subdivide:4"]),
            extra: serde_json::json!({}),
        },
    )
}

pub fn replay(path: &str) -> i32 {
    replay_file("C09", &C09, path)
}
