//! C03 k_exp only interpolates between step A and step B.

use cteepbd::types::{EnergyPerformance, RenNrenCo2};

use super::{flow_models, strs, FlowSpec};
use crate::cmp::{bits_equal, show};
use crate::core::*;
use crate::model::*;
use crate::sched;
use crate::subj::{self, close};
use crate::tree::result_flat;

#[derive(Clone, Copy)]
pub struct C03;

static QUICK: std::sync::atomic::AtomicBool = std::sync::atomic::AtomicBool::new(false);
fn quick_mode() -> bool {
    QUICK.load(std::sync::atomic::Ordering::Relaxed)
}

const KS: [f32; 6] = [0.0, 0.25, 0.337, 0.5, 0.6789, 1.0];

fn rnc(x: &RenNrenCo2) -> [f64; 3] {
    [x.ren as f64, x.nren as f64, x.co2 as f64]
}

/// paths that legitimately depend on k_exp
fn k_dependent(p: &str) -> bool {
    p == "k_exp"
        || p.contains(".we.b.")
        || p.contains(".we.b_by_srv.")
        || p.contains(".we.exp.")
        || p.starts_with("rer")
        || p.starts_with("balance_m2.we.b")
        || p.starts_with("balance_m2.we.exp.")
        || p.starts_with("balance.we.b")
        || p.starts_with("balance.we.exp.")
}

fn affine(eps: &[EnergyPerformance], cfg: &str, t: f64, out: &mut Out) {
    // eps[i] evaluated at KS[i]; index 0 is k=0, last is k=1
    let e0 = &eps[0];
    let e1 = &eps[eps.len() - 1];
    let mut chk = |what: String, a: [f64; 3], b0: [f64; 3], b1: [f64; 3], bk: [f64; 3], k: f64, out: &mut Out| {
        out.compared += 1;
        for j in 0..3 {
            let exp = a[j] + k * (b1[j] - a[j]);
            if !close(bk[j], exp, t) {
                out.viol("affine_in_k", &[], cfg, format!("{what}[{j}] at k={k}: {}", bk[j]), format!("A + k*(B(1)-A) = {exp}"));
            }
            if !close(b0[j], a[j], t) {
                out.viol("b_at_k0_is_a", &[], cfg, format!("{what}[{j}] at k=0: {}", b0[j]), format!("step A = {}", a[j]));
            }
        }
    };
    for (i, ek) in eps.iter().enumerate() {
        let k = KS[i] as f64;
        // total
        chk("balance.we.b".into(), rnc(&ek.balance.we.a), rnc(&e0.balance.we.b), rnc(&e1.balance.we.b), rnc(&ek.balance.we.b), k, out);
        chk("balance_m2.we.b".into(), rnc(&ek.balance_m2.we.a), rnc(&e0.balance_m2.we.b), rnc(&e1.balance_m2.we.b), rnc(&ek.balance_m2.we.b), k, out);
        for (srv, a) in &ek.balance.we.a_by_srv {
            match (e0.balance.we.b_by_srv.get(srv), e1.balance.we.b_by_srv.get(srv), ek.balance.we.b_by_srv.get(srv)) {
                (Some(b0), Some(b1), Some(bk)) => chk(format!("balance.we.b_by_srv.{srv}"), rnc(a), rnc(b0), rnc(b1), rnc(bk), k, out),
                _ => out.viol("by_srv_missing", &[], cfg, format!("service {srv} missing in step B map"), "present"),
            }
        }
        for (cr, bc) in &ek.balance_cr {
            let (Some(c0), Some(c1)) = (e0.balance_cr.get(cr), e1.balance_cr.get(cr)) else {
                out.viol("carrier_set_depends_on_k", &[], cfg, format!("{cr} missing"), "same carriers for all k");
                continue;
            };
            chk(format!("balance_cr.{cr}.we.b"), rnc(&bc.we.a), rnc(&c0.we.b), rnc(&c1.we.b), rnc(&bc.we.b), k, out);
            for (srv, a) in &bc.we.a_by_srv {
                if let (Some(b0), Some(b1), Some(bk)) = (c0.we.b_by_srv.get(srv), c1.we.b_by_srv.get(srv), bc.we.b_by_srv.get(srv)) {
                    chk(format!("balance_cr.{cr}.we.b_by_srv.{srv}"), rnc(a), rnc(b0), rnc(b1), rnc(bk), k, out);
                }
            }
        }
    }
}

fn check_inner(text: &str, out: &mut Out, exact: bool) {
    let comps = match subj::parse(text) {
        Ok(c) => c,
        Err(_) => {
            out.typed_errors += 1;
            return;
        }
    };
    if comps.data.is_empty() {
        return;
    }
    let sets: &[&str] = if quick_mode() { &["PENINSULA", "SKEW+COGEN"] } else { &["PENINSULA", "SKEW", "SKEW+COGEN"] };
    for fs in sets {
        for lm in [false, true] {
            let cfg = format!("factors={fs} load_matching={lm}");
            let f = subj::fset(fs);
            let mut eps = vec![];
            for k in KS {
                out.evals += 1;
                match subj::eval(&comps, f, k, 1.0, lm) {
                    Ok(e) => eps.push(e),
                    Err(_) => out.typed_errors += 1,
                }
            }
            if eps.len() != KS.len() {
                if !eps.is_empty() {
                    out.viol("error_depends_on_k", &[], &cfg, format!("{} of {} k values evaluated", eps.len(), KS.len()), "all or none");
                }
                continue;
            }
            let mag = subj::magnitude(&comps, f);
            let t = subj::tol(mag);
            affine(&eps, &cfg, t, out);
            // history of calls: the completed factor set returned by an earlier evaluation (at k_exp = 1) is the factor set of
            // the next ones — still "fixed components and factors": B(k) must interpolate between A and B(1) as before
            if *fs == "PENINSULA" {
                let first = &eps[eps.len() - 1];
                let mut eps2 = vec![];
                for k in KS {
                    out.evals += 1;
                    if let Ok(e) = subj::eval(&comps, &first.wfactors, k, 1.0, lm) {
                        eps2.push(e);
                    }
                }
                if eps2.len() == KS.len() {
                    out.regime("factors_of_an_earlier_evaluation");
                    affine(&eps2, &format!("{cfg}; factors = those returned by an earlier evaluation at k_exp=1"), t, out);
                } else {
                    out.viol("error_depends_on_k", &["history"], format!("{cfg}; factors = those returned by an earlier evaluation at k_exp=1"), format!("{} of {} k values evaluated", eps2.len(), KS.len()), "all");
                }
            }
            // flows and step A do not depend on k
            // full-tree comparison: k = 0 against k = 0.337 and k = 1
            let sel = [0usize, 2, eps.len() - 1];
            let flats: Vec<_> = sel.iter().map(|i| result_flat(&eps[*i])).collect();
            let ratios = eps.iter().all(|e| crate::cmp::ratios_ok(e, mag));
            let exports = eps[0].balance.exp.an != 0.0 || eps[0].balance_cr.values().any(|b| b.exp.an != 0.0);
            if exports {
                out.nontrivial = true;
                out.regime(if lm { "exports:lm" } else { "exports" });
                if eps[0].balance.we.a != eps[eps.len() - 1].balance.we.b {
                    out.regime("A!=B(1)");
                }
            } else {
                out.regime("no_export");
            }
            for i in 1..flats.len() {
                let skip = |p: &str| (if exports { k_dependent(p) } else { p == "k_exp" }) || (p.starts_with("rer") && !ratios && !exact);
                let d = if exact { bits_equal(&flats[0], &flats[i], &skip) } else { crate::cmp::cmp_flat_m(&flats[0], &flats[i], t * 0.05, 2e-6, mag, mag, &skip, &|_, x| x) };
                out.compared += 1;
                if !d.is_empty() {
                    let (a, b) = show(&d);
                    let clause = match (exact, exports) {
                        (true, true) => "flows_and_stepA_bit_identical_across_k",
                        (false, true) => "flows_and_stepA_independent_of_k",
                        (true, false) => "no_export_result_bit_identical_across_k",
                        (false, false) => "no_export_result_independent_of_k",
                    };
                    out.viol(clause, &[], &cfg, format!("k=0: {a}"), format!("k={}: {b}", KS[sel[i]]));
                }
            }
            if exact {
                // B(0) == A bit for bit
                let e0 = &eps[0];
                if e0.balance.we.a != e0.balance.we.b || e0.balance_cr.values().any(|b| b.we.a != b.we.b) {
                    out.viol("b_at_k0_bit_identical_to_a", &[], &cfg, format!("{:?}", e0.balance.we.b), format!("{:?}", e0.balance.we.a));
                }
            }
        }
    }
}

impl StateCheck for C03 {
    fn check(&self, text: &str, _l: &[Line], out: &mut Out) {
        check_inner(text, out, false);
        // bit-exact clauses: small states, each k evaluated under IDENTICAL hash keys (isolated executions)
        let nlines = text.lines().count();
        if nlines <= 2 {
            let key = (0xC03u64 << 44, sched::K1);
            let mut r = Out::default();
            check_exact(text, key, &mut r);
            out.viols.extend(r.viols);
            out.evals += r.evals;
            out.compared += r.compared;
            if r.evals > 0 {
                out.regime("bit_exact_isolated");
            }
        }
    }
}

/// Evaluate each k on its own fresh thread with the same forced key, then compare bit for bit.
fn check_exact(text: &str, key: sched::Key, out: &mut Out) {
    for fs in ["PENINSULA", "SKEW+COGEN"] {
        for lm in [false, true] {
            let cfg = format!("factors={fs} load_matching={lm} isolated_key={key:?}");
            let mut flats = vec![];
            let mut eps = vec![];
            for k in KS {
                let r = sched::isolated(key, || {
                    let c = subj::parse(text).ok()?;
                    if c.data.is_empty() {
                        return None;
                    }
                    let e = subj::eval(&c, subj::fset(fs), k, 1.0, lm).ok()?;
                    let f = result_flat(&e);
                    Some((e, f))
                });
                out.evals += 1;
                if let Some((e, f)) = r {
                    eps.push(e);
                    flats.push(f);
                }
            }
            if flats.len() != KS.len() {
                continue;
            }
            let exports = eps[0].balance_cr.values().any(|b| b.exp.an != 0.0);
            for i in 1..flats.len() {
                let skip = |p: &str| if exports { k_dependent(p) } else { p == "k_exp" };
                let d = bits_equal(&flats[0], &flats[i], &skip);
                out.compared += 1;
                if !d.is_empty() {
                    let (a, b) = show(&d);
                    out.viol(if exports { "flows_and_stepA_bit_identical_across_k" } else { "no_export_result_bit_identical_across_k" }, &[], &cfg, format!("k=0: {a}"), format!("k={}: {b}", KS[i]));
                }
            }
            let e0 = &eps[0];
            if e0.balance.we.a != e0.balance.we.b || e0.balance_cr.values().any(|b| b.we.a != b.we.b) {
                out.viol("b_at_k0_bit_identical_to_a", &[], &cfg, format!("{:?}", e0.balance.we.b), format!("{:?}", e0.balance.we.a));
            }
        }
    }
}

pub fn run(ctx: &Ctx) -> i32 {
    let shared = Shared::new("C03", ctx);
    QUICK.store(ctx.quick(), std::sync::atomic::Ordering::Relaxed);
    flow_models(ctx, &shared, C03, FlowSpec { quick_depth: 3, thorough_depth: 4, extra: vec![], deep: true, heavy_oracle: true, seeded: true, t3: true, valuesets: true });
    finish(
        ctx,
        &shared,
        &C03,
        Finish {
            level: "model_checking",
            rule: "every FLOW state evaluated at k_exp in {0,0.25,0.337,0.5,0.6789,1} x 2 (quick) / 3 (thorough) factor sets x load matching; non-trivial = some carrier exports".into(),
            assumptions: strs(&[
                "affinity and k-independence are compared with tolerance 2e-5*magnitude+1e-6 on every state (evaluations share the parsed components but not the hash keys)",
                "bit-identity clauses are checked on the states with <= 2 lines, each k on a fresh thread with identical forced hash keys",
                "k_exp checked at 0, 0.25, 0.337, 0.5, 0.6789, 1 only",
            ]),
            required_regimes: strs(&["exports", "exports:lm", "no_export", "A!=B(1)", "bit_exact_isolated"]),
            extra: serde_json::json!({"k_values": KS}),
        },
    )
}

pub fn replay(path: &str) -> i32 {
    replay_file("C03", &C03, path)
}
