//! C16 No input makes the library panic or the program crash or hang (fault enumeration, E3).

use std::collections::BTreeSet;
use std::sync::atomic::{AtomicU64, Ordering};
use std::sync::{Arc, Mutex, OnceLock};
use std::time::Duration;

use cteepbd::{cte, AsCtePlain, AsCteXml};

use super::strs;
use crate::cli;
use crate::core::*;
use crate::model::*;
use crate::subj;

pub const MENU: [&str; 46] = [
    "CONSUMO", "PRODUCCION", "AUX", "SALIDA", "DEMANDA", "ACS", "CAL", "REF", "VEN", "ILU", "NEPB", "COGEN", "ELECTRICIDAD", "GASNATURAL", "BIOMASA", "EAMBIENTE", "TERMOSOLAR", "RED1", "EL_INSITU",
    "EL_COGEN", "RED", "INSITU", "SUMINISTRO", "A_RED", "A_NEPB", "A", "B", "", " ", "0", "-1", "1.5", "99999999999", "1e39", "-1e39", "NaN", "inf", "abc", "ñ", "€", "#", "#META", "1,2", "#CTE_", "vector", "-0",
];

#[derive(Clone, Debug)]
pub enum Fault {
    LineDel(usize),
    LineDup(usize),
    LineSwap(usize),
    TruncAfterLine(usize),
    FieldDel(usize, usize),
    FieldDup(usize, usize),
    FieldSwap(usize, usize),
    TruncAfterField(usize, usize),
    FieldRepl(usize, usize, usize),
    ByteTrunc(usize),
    ByteIns(usize, usize),
}

const INS: [&str; 7] = [",", "#", "\n", "\r", "\t", "\0", "\u{feff}"];

fn split_fields(line: &str) -> Vec<&str> {
    line.split(',').collect()
}

/// all single faults of `text` in a fixed order
pub fn faults(text: &str, byte_level: bool) -> Vec<Fault> {
    let mut v = vec![];
    let lines: Vec<&str> = text.lines().collect();
    for (i, l) in lines.iter().enumerate() {
        v.push(Fault::LineDel(i));
        v.push(Fault::LineDup(i));
        if i + 1 < lines.len() {
            v.push(Fault::LineSwap(i));
            v.push(Fault::TruncAfterLine(i));
        }
        if l.trim().is_empty() {
            continue;
        }
        let f = split_fields(l);
        let nf = f.len();
        // value fields in the middle of a long series are equivalent: keep the first two, the middle one and the last two
        let keep = |j: usize| nf <= 8 || j < 6 || j == nf / 2 + 2 || j + 2 >= nf;
        for j in 0..nf {
            if !keep(j) {
                continue;
            }
            v.push(Fault::FieldDel(i, j));
            v.push(Fault::FieldDup(i, j));
            if j + 1 < nf {
                v.push(Fault::FieldSwap(i, j));
                v.push(Fault::TruncAfterField(i, j));
            }
            for t in 0..MENU.len() {
                v.push(Fault::FieldRepl(i, j, t));
            }
        }
    }
    if byte_level {
        let offs: Vec<usize> = (0..=text.len()).filter(|o| text.is_char_boundary(*o)).collect();
        for o in &offs {
            v.push(Fault::ByteTrunc(*o));
            for c in 0..INS.len() {
                v.push(Fault::ByteIns(*o, c));
            }
        }
    }
    v
}

pub fn apply(text: &str, f: &Fault) -> String {
    let mut lines: Vec<String> = text.lines().map(String::from).collect();
    let join = |ls: &[String]| -> String {
        let mut s = ls.join("\n");
        s.push('\n');
        s
    };
    let edit = |lines: &mut Vec<String>, i: usize, g: &dyn Fn(Vec<String>) -> Vec<String>| {
        let f: Vec<String> = lines[i].split(',').map(String::from).collect();
        lines[i] = g(f).join(",");
    };
    match f {
        Fault::LineDel(i) => {
            lines.remove(*i);
            join(&lines)
        }
        Fault::LineDup(i) => {
            let l = lines[*i].clone();
            lines.insert(*i, l);
            join(&lines)
        }
        Fault::LineSwap(i) => {
            lines.swap(*i, *i + 1);
            join(&lines)
        }
        Fault::TruncAfterLine(i) => {
            lines.truncate(*i + 1);
            join(&lines)
        }
        Fault::FieldDel(i, j) => {
            edit(&mut lines, *i, &|mut f| {
                f.remove(*j);
                f
            });
            join(&lines)
        }
        Fault::FieldDup(i, j) => {
            edit(&mut lines, *i, &|mut f| {
                let x = f[*j].clone();
                f.insert(*j, x);
                f
            });
            join(&lines)
        }
        Fault::FieldSwap(i, j) => {
            edit(&mut lines, *i, &|mut f| {
                f.swap(*j, *j + 1);
                f
            });
            join(&lines)
        }
        Fault::TruncAfterField(i, j) => {
            edit(&mut lines, *i, &|mut f| {
                f.truncate(*j + 1);
                f
            });
            join(&lines)
        }
        Fault::FieldRepl(i, j, t) => {
            edit(&mut lines, *i, &|mut f| {
                f[*j] = MENU[*t].to_string();
                f
            });
            join(&lines)
        }
        Fault::ByteTrunc(o) => text[..*o].to_string(),
        Fault::ByteIns(o, c) => format!("{}{}{}", &text[..*o], INS[*c], &text[*o..]),
    }
}

/// Fault space: state = (base, sequence of fault indices); each index refers to the fault list of the text
/// obtained so far. Deviation bound = number of faults.
pub struct FaultSpace {
    pub bases: Vec<(String, String)>,
    pub max_faults: usize,
    pub byte_level: bool,
    /// tag prepended to the state text so that the check knows what kind of file it is
    pub kind: &'static str,
    cache: Vec<OnceLock<Vec<Fault>>>,
}

impl FaultSpace {
    pub fn new(bases: Vec<(String, String)>, max_faults: usize, byte_level: bool, kind: &'static str) -> Self {
        let cache = bases.iter().map(|_| OnceLock::new()).collect();
        FaultSpace { bases, max_faults, byte_level, kind, cache }
    }
    fn text_of(&self, s: &FS) -> String {
        let mut t = self.bases[s.base as usize].1.clone();
        for (k, fi) in s.faults.iter().enumerate() {
            let fl;
            let list: &Vec<Fault> = if k == 0 {
                self.cache[s.base as usize].get_or_init(|| faults(&self.bases[s.base as usize].1, self.byte_level))
            } else {
                fl = faults(&t, self.byte_level);
                &fl
            };
            t = apply(&t, &list[*fi as usize]);
        }
        t
    }
}

#[derive(Clone, Debug, Hash, PartialEq, Eq)]
pub struct FS {
    pub base: u16,
    pub faults: Vec<u32>,
}

impl Space for FaultSpace {
    type S = FS;
    fn init(&self) -> Vec<FS> {
        (0..self.bases.len()).map(|b| FS { base: b as u16, faults: vec![] }).collect()
    }
    fn actions(&self, s: &FS, out: &mut Vec<u32>) {
        if s.faults.len() >= self.max_faults {
            return;
        }
        let n = if s.faults.is_empty() {
            self.cache[s.base as usize].get_or_init(|| faults(&self.bases[s.base as usize].1, self.byte_level)).len()
        } else {
            faults(&self.text_of(s), self.byte_level).len()
        };
        out.extend(0..n as u32);
    }
    fn next(&self, s: &FS, a: u32) -> Option<FS> {
        let mut n = s.clone();
        n.faults.push(a);
        Some(n)
    }
    fn lines(&self, s: &FS) -> Option<(String, Vec<Line>)> {
        Some((format!("{}{}", self.kind, self.text_of(s)), vec![]))
    }
    fn depth(&self, s: &FS) -> usize {
        s.faults.len()
    }
}

// ---------------------------------------------------------------------------------------------------

#[derive(Clone)]
pub struct C16 {
    pub cli_every_state: bool,
    pub classes: Arc<Mutex<BTreeSet<String>>>,
}

pub static CLI_RUNS: AtomicU64 = AtomicU64::new(0);
pub static CLI_EXITS: [AtomicU64; 6] = [AtomicU64::new(0), AtomicU64::new(0), AtomicU64::new(0), AtomicU64::new(0), AtomicU64::new(0), AtomicU64::new(0)];

pub const KIND_COMP: &str = "\u{1}COMPONENTS\n";
pub const KIND_FACT: &str = "\u{1}FACTORS\n";
const FIXED_BUILDING: &str = "CONSUMO, ILU, ELECTRICIDAD, 5, 1\nPRODUCCION, EL_INSITU, 3, 3\nCONSUMO, CAL, GASNATURAL, 3, 3\nCONSUMO, NEPB, ELECTRICIDAD, 1, 1\n1, CONSUMO, ACS, EAMBIENTE, 2, 2\n";

fn trap<R>(f: impl FnOnce() -> R) -> Result<R, String> {
    std::panic::catch_unwind(std::panic::AssertUnwindSafe(f)).map_err(|e| {
        let loc = crate::core::last_panic_location();
        let m = if let Some(s) = e.downcast_ref::<&str>() {
            s.to_string()
        } else if let Some(s) = e.downcast_ref::<String>() {
            s.clone()
        } else {
            "panic".into()
        };
        format!("{m} at {loc}")
    })
}

/// in-process pipeline on a components text; returns the outcome class
fn pipeline_components(text: &str, out: &mut Out) -> String {
    out.evals += 1;
    let r = trap(|| -> String {
        let c = match text.parse::<cteepbd::Components>() {
            Ok(c) => c,
            Err(e) => return format!("parse:{}", subj::err_kind(&e)),
        };
        if c.data.is_empty() {
            return "ok:no_components".into();
        }
        let mut class = String::from("ok");
        for (k, area, lm) in [(0.0f32, 1.0f32, false), (1.0, 2.5, true)] {
            let f = subj::fset("PENINSULA").clone().strip(&c);
            match cteepbd::energy_performance(&c, &f, k, area, lm) {
                Ok(ep) => {
                    let _ = cte::fraccion_renovable_acs_nrb(&ep);
                    let ep = cte::incorpora_demanda_renovable_acs_nrb(ep);
                    let _ = ep.to_plain();
                    let _ = ep.to_xml();
                    let _ = serde_json::to_string(&ep);
                    let _ = c.to_string();
                    let _ = f.to_string();
                }
                Err(e) => class = format!("eval:{}", subj::err_kind(&e)),
            }
        }
        class
    });
    // the same component set reached through a history of library calls (part of the file read, a component pushed, normalized
    // again; normalized twice) is evaluated as well: no panic there either
    if matches!(&r, Ok(c) if c.starts_with("ok") && c != "ok:no_components") {
        let rh = trap(|| {
            for v in crate::hist::variants(text, 4) {
                let Ok(c) = &v.comps else { continue };
                let f = subj::fset("PENINSULA").clone().strip(c);
                if let Ok(ep) = cteepbd::energy_performance(c, &f, 0.0, 1.0, false) {
                    let _ = cte::fraccion_renovable_acs_nrb(&ep);
                    let _ = ep.to_plain();
                    let _ = ep.to_xml();
                }
                let _ = c.to_string();
            }
        });
        out.evals += 1;
        if let Err(p) = rh {
            let site = p.rsplit(" at ").next().unwrap_or("").to_string();
            out.viol("library_never_panics", &[&format!("site:{site}"), "history"], "in-process: read part of the file / push a component / normalize() again -> strip -> energy_performance -> DHW fraction -> plain/xml", format!("panic: {p}"), "a result or a typed error");
            return format!("panic:{site}");
        }
    }
    match r {
        Ok(c) => c,
        Err(p) => {
            let site = p.rsplit(" at ").next().unwrap_or("").to_string();
            out.viol("library_never_panics", &[&format!("site:{site}")], "in-process: parse -> strip -> energy_performance -> DHW fraction -> plain/xml/json", format!("panic: {p}"), "a result or a typed error");
            format!("panic:{site}")
        }
    }
}

fn pipeline_factors(text: &str, out: &mut Out) -> String {
    out.evals += 1;
    let r = trap(|| -> String {
        let f = match cte::wfactors_from_str(text, subj::no_user(), cte::CTE_USERWF) {
            Ok(f) => f,
            Err(e) => return format!("factors:{}", subj::err_kind(&e)),
        };
        let c = subj::parse(FIXED_BUILDING).expect("fixed building");
        let _ = f.to_string();
        let _ = f.to_xml();
        let f2 = f.clone().strip(&c);
        match cteepbd::energy_performance(&c, &f2, 0.5, 1.0, true) {
            Ok(ep) => {
                let _ = ep.to_plain();
                let _ = ep.to_xml();
                "ok".into()
            }
            Err(e) => format!("eval:{}", subj::err_kind(&e)),
        }
    });
    match r {
        Ok(c) => c,
        Err(p) => {
            let site = p.rsplit(" at ").next().unwrap_or("").to_string();
            out.viol("library_never_panics", &[&format!("site:{site}")], "in-process: wfactors_from_str -> strip -> energy_performance -> outputs", format!("panic: {p}"), "a result or a typed error");
            format!("panic:{site}")
        }
    }
}

/// stderr excerpt without run-dependent numbers (thread ids, scratch paths)
fn san(s: &str, n: usize) -> String {
    let mut o = String::new();
    let mut last_hash = false;
    for c in s.chars() {
        if c.is_ascii_digit() {
            if !last_hash {
                o.push('#');
            }
            last_hash = true;
        } else {
            o.push(c);
            last_hash = false;
        }
    }
    // truncate AFTER sanitizing: the raw text has run-dependent lengths (thread ids)
    o.chars().take(n).collect()
}

pub fn judge_cli(o: &cli::CliOut, what: &str, out: &mut Out) {
    CLI_RUNS.fetch_add(1, Ordering::Relaxed);
    out.compared += 1;
    let cfg = format!("out-of-process: cteepbd {what}");
    if o.timed_out {
        out.viol("program_terminates_by_itself", &["hang"], &cfg, format!("no exit within the 10 s horizon; stderr: {}", san(&o.stderr, 200)), "terminates");
        return;
    }
    if let Some(sig) = o.signal {
        out.viol("program_not_killed_by_signal", &[], &cfg, format!("signal {sig}; stderr: {}", san(&o.stderr, 200)), "exit code");
        return;
    }
    match o.status {
        Some(c) => {
            let idx = match c {
                0 => 0,
                1 => 1,
                64 => 2,
                65 => 3,
                73 => 4,
                74 => 5,
                _ => {
                    out.viol("deliberate_exit_code", &[], &cfg, format!("exit {c}; stderr: {}", san(&o.stderr, 200)), "0, 1, 64, 65, 73 or 74");
                    return;
                }
            };
            CLI_EXITS[idx].fetch_add(1, Ordering::Relaxed);
            if c != 0 && o.stderr.trim().is_empty() {
                out.viol("error_reported_on_stderr", &[], &cfg, format!("exit {c} with empty stderr"), "a message");
            }
            if o.stderr.contains("panicked at") {
                out.viol("program_never_panics", &[], &cfg, format!("exit {c}; stderr: {}", san(&o.stderr, 300)), "no panic");
            }
        }
        None => out.viol("deliberate_exit_code", &[], &cfg, "no exit status", "exit code"),
    }
}

pub const KIND_OPTIONS: &str = "\u{1}OPTIONS";

/// the binary runs under the getrandom shim with a seed that is a function of the file: the hash order of the
/// child process is then owned too (a panic that depends on it reproduces on replay), and differs from file to file
fn text_seed(t: &str) -> u64 {
    let mut h: u64 = 0xcbf29ce484222325;
    for b in t.bytes() {
        h = (h ^ b as u64).wrapping_mul(0x100000001b3);
    }
    h >> 1
}

impl StateCheck for C16 {
    fn check(&self, text: &str, _l: &[Line], out: &mut Out) {
        if text.starts_with(KIND_OPTIONS) {
            numeric_options_in_process(out);
            options_leg(out);
            out.regime("options_leg");
            return;
        }
        let (kind, body) = if let Some(b) = text.strip_prefix(KIND_FACT) { ("factors", b) } else if let Some(b) = text.strip_prefix(KIND_COMP) { ("components", b) } else { ("components", text) };
        let class = if kind == "factors" { pipeline_factors(body, out) } else { pipeline_components(body, out) };
        out.regime(format!("{kind}:{}", class.split(':').next().unwrap_or("")));
        if class != "ok" {
            out.nontrivial = true;
        }
        let first_of_class = self.classes.lock().unwrap().insert(format!("{kind}:{class}"));
        if cli::available() && (self.cli_every_state || first_of_class || class.starts_with("panic")) {
            let o = if kind == "factors" {
                cli::run(&cli::sv(&["-c", "@c.csv", "-f", "@f.csv"]), &[("c.csv", FIXED_BUILDING.as_bytes()), ("f.csv", body.as_bytes())], &[], Some(text_seed(body)), Duration::from_secs(10))
            } else {
                cli::run(&cli::sv(&["-c", "@c.csv", "-l", "PENINSULA", "--json", "@o.json", "--xml", "@o.xml"]), &[("c.csv", body.as_bytes())], &[], Some(text_seed(body)), Duration::from_secs(10))
            };
            out.regime("cli_run");
            judge_cli(&o, &format!("on the {kind} file"), out);
        }
    }
}

fn synthesized_components() -> Vec<(String, String)> {
    let v: Vec<(&str, &str)> = vec![
        ("all_kinds", "#META CTE_AREAREF: 10\n#CTE_kexp: 0.5\nDEMANDA, ACS, 3, 3\n1, CONSUMO, ACS, ELECTRICIDAD, 1, 2 # c\n1, CONSUMO, ACS, EAMBIENTE, 2, 4\n1, AUX, 0.5, 0.5\n1, SALIDA, ACS, 3, 6\n0, PRODUCCION, EL_INSITU, 2, 2\n"),
        ("legacy", "CONSUMO, ILU, ELECTRICIDAD, 1, 2\nPRODUCCION, EL_INSITU, 2, 1\nAUX, 1, 1\nCONSUMO, NEPB, ELECTRICIDAD, 1, 1\n"),
        ("output_first", "-1, SALIDA, CAL, 3, 1\n2, CONSUMO, CAL, GASNATURAL, 4, 2\n2, CONSUMO, REF, ELECTRICIDAD, 1, 1\n2, SALIDA, REF, -2, -2\n2, AUX, 1, 0\n"),
        ("aux_only", "1, AUX, 4, 0\n1, CONSUMO, ACS, GASNATURAL, 3, 3\n"),
        ("two_demands", "DEMANDA, ACS, 3, 3\nDEMANDA, ACS, 1, 2\nDEMANDA, REF, 1, 1\nDEMANDA, REF, 2, 3\nDEMANDA, CAL, 5, 5\nDEMANDA, CAL, 1, 1\nCONSUMO, ACS, GASNATURAL, 5, 6\n"),
        ("cogen", "CONSUMO, ILU, ELECTRICIDAD, 3, 1\n2, PRODUCCION, EL_COGEN, 2, 2\n2, CONSUMO, COGEN, GASNATURAL, 5, 5\n2, CONSUMO, COGEN, BIOMASA, 1, 1\nCONSUMO, ACS, BIOMASA, 2, 2\n"),
        ("thermal", "1, CONSUMO, ACS, TERMOSOLAR, 1, 3\n1, PRODUCCION, TERMOSOLAR, 2, 2\n3, CONSUMO, CAL, RED1, 1, 1\n3, CONSUMO, VEN, RED2, 1, 1\nCONSUMO, NEPB, EAMBIENTE, 1, 0\n"),
        ("one_step_meta", "#META CTE_LOCALIZACION: CANARIAS\n#META CTE_RED1: 0.5, 0.5, 0.1\nvector,tipo,src_dst\nCONSUMO, CAL, RED1, 7\n"),
    ];
    v.into_iter().map(|(a, b)| (a.to_string(), b.to_string())).collect()
}

fn synthesized_factors() -> Vec<(String, String)> {
    vec![
        ("minimal".to_string(), "#META CTE_FUENTE: x\nvector, fuente, uso, step, ren, nren, co2\nELECTRICIDAD, RED, SUMINISTRO, A, 0.5, 2.0, 0.42 # c\nGASNATURAL, RED, SUMINISTRO, A, 0.0, 1.1, 0.22\nELECTRICIDAD, INSITU, A_RED, B, 0.4, 1.9, 0.3\nELECTRICIDAD, COGEN, A_NEPB, A, 0, 2.5, 0.3\nRED1, RED, SUMINISTRO, A, 0.1, 1.2, 0.3\n".to_string()),
    ]
}

pub fn options_leg(out: &mut Out) {
    if !cli::available() {
        return;
    }
    let base = "CONSUMO, ILU, ELECTRICIDAD, 5, 1\nPRODUCCION, EL_INSITU, 3, 3\n";
    for opt in ["-a", "-k"] {
        for t in MENU.iter().chain(["1e-4", "0.001", "0.0011", "1", "0.5", "1.0000001", "-0.0", "１"].iter()) {
            let o = cli::run(&cli::sv(&["-c", "@c.csv", "-l", "PENINSULA", opt, t]), &[("c.csv", base.as_bytes())], &[], Some(5), Duration::from_secs(10));
            judge_cli(&o, &format!("{opt} {t:?}"), out);
        }
    }
    for t in ["NaN", "inf", "abc", "", "1e39", "-1"] {
        let o = cli::run(&cli::sv(&["-c", "@c.csv", "-l", "PENINSULA", "--red1", t, "1", "0.5"]), &[("c.csv", "CONSUMO, CAL, RED1, 5\n".as_bytes())], &[], Some(5), Duration::from_secs(10));
        judge_cli(&o, &format!("--red1 {t:?} 1 0.5"), out);
    }
    // spellings of a user factor in the metadata (the braces form and the list form), in-process and through the program
    for v in ["{ ren: 0.5, nren: 0.5, co2: 0.1 }", "{ ren: 0.5, nren: 0.5, co2: 0.1, }", "{ }", "{}", "{ 0.5, 0.5, 0.1 }", "{ ren: 0.5 }", "{ ren: , nren: 1, co2: 1 }", "{ ren 0.5, nren 0.5, co2 0.1 }", "{ ren: 0.5, nren: 0.5, co2: 0.1", "ren: 0.5, nren: 0.5, co2: 0.1 }", "0.5, 0.5", "0.5, 0.5, 0.1, 0.7", "0.5; 0.5; 0.1", "(0.5, 0.5, 0.1)", "0.5 0.5 0.1", ", ,", ",,,", ":", "{:}", "{ :, :, : }"] {
        let r = trap(|| {
            let _ = v.parse::<cteepbd::types::RenNrenCo2>();
        });
        out.evals += 1;
        if let Err(p) = r {
            out.viol("library_never_panics", &[], format!("`{v}`.parse::<RenNrenCo2>()"), format!("panic: {p}"), "a value or a typed error");
        }
        let text = format!("#META CTE_RED1: {v}\n#META CTE_RED2: {v}\nCONSUMO, CAL, RED1, 5\n");
        let o = cli::run(&cli::sv(&["-c", "@c.csv", "-l", "PENINSULA"]), &[("c.csv", text.as_bytes())], &[], Some(5), Duration::from_secs(10));
        judge_cli(&o, &format!("#META CTE_RED1: {v}"), out);
    }
    // invalid UTF-8, empty and binary files; missing files; unwritable outputs
    let weird: Vec<(&str, Vec<u8>)> = vec![("invalid_utf8", vec![0x43, 0x4f, 0xff, 0xfe, 0x2c, 0x31, 0x0a]), ("empty", vec![]), ("nul", vec![0; 64]), ("only_newlines", b"\n\n\n".to_vec()), ("latin1", b"CONSUMO, ILU, ELECTRICIDAD, 1 # a\xf1o\n".to_vec())];
    for (n, b) in &weird {
        let o = cli::run(&cli::sv(&["-c", "@c.csv", "-l", "PENINSULA"]), &[("c.csv", b)], &[], Some(5), Duration::from_secs(10));
        judge_cli(&o, &format!("components file {n}"), out);
        let o = cli::run(&cli::sv(&["-c", "@c.csv", "-f", "@f.csv"]), &[("c.csv", base.as_bytes()), ("f.csv", b)], &[], Some(5), Duration::from_secs(10));
        judge_cli(&o, &format!("factors file {n}"), out);
    }
    for args in [vec!["-c", "/nonexistent/x.csv", "-l", "PENINSULA"], vec!["-c", "@c.csv"], vec![], vec!["-c", "@c.csv", "-l", "MARTE"], vec!["-c", "@c.csv", "-l", "PENINSULA", "--json", "/nonexistent/dir/o.json"], vec!["-c", "@c.csv", "-l", "PENINSULA", "-f", "@c.csv"], vec!["-L"], vec!["-c", "@c.csv", "-l", "PENINSULA", "-vvv", "--load_matching"]] {
        let o = cli::run(&cli::sv(&args), &[("c.csv", base.as_bytes())], &[], Some(5), Duration::from_secs(10));
        judge_cli(&o, &format!("{args:?}"), out);
    }
    // faults and unusual environments at particular points: outputs that cannot be written (device full, a directory), the
    // same path for two outputs or for an input and an output, options given twice, odd spellings of values, `--`
    let mut env_cases: Vec<Vec<&str>> = vec![];
    for o in ["--json", "--xml", "--txt", "--oc", "--of"] {
        env_cases.push(vec!["-c", "@c.csv", "-l", "PENINSULA", o, "/dev/full"]);
        env_cases.push(vec!["-c", "@c.csv", "-l", "PENINSULA", o, "/"]);
        env_cases.push(vec!["-c", "@c.csv", "-l", "PENINSULA", o, "@c.csv"]);
        env_cases.push(vec!["-c", "@c.csv", "-l", "PENINSULA", o, ""]);
    }
    env_cases.extend([
        vec!["-c", "@c.csv", "-l", "PENINSULA", "--json", "@o.x", "--xml", "@o.x", "--txt", "@o.x"],
        vec!["-c", "@c.csv", "-l", "PENINSULA", "--oc", "@o.x", "--of", "@o.x"],
        vec!["-c", "@c.csv", "-c", "@c.csv", "-l", "PENINSULA"],
        vec!["-c", "@c.csv", "-l", "PENINSULA", "-l", "CANARIAS"],
        vec!["-c", "@c.csv", "-l", "PENINSULA", "-a", "+2.5", "-k", "+0.5"],
        vec!["-c", "@c.csv", "-l", "PENINSULA", "-a", " 3 ", "-k", " 1 "],
        vec!["-c", "@c.csv", "-l", "PENINSULA", "-a", "1e2", "-k", "5e-1"],
        vec!["-c", "@c.csv", "-l", "PENINSULA", "-a", "", "-k", ""],
        vec!["-c", "@c.csv", "-l", ""],
        vec!["-c", "", "-l", "PENINSULA"],
        vec!["--", "-c", "@c.csv"],
        vec!["-c", "@c.csv", "-l", "PENINSULA", "--"],
        vec!["-c", "@sub/../c.csv", "-l", "PENINSULA"],
        vec!["-c", "@c.csv", "-l", "PENINSULA", "-vv", "-vv", "-F", "-F"],
        vec!["-c", "@c.csv", "-f", "@f bom.csv"],
        vec!["-c", "@a b.csv", "-l", "PENINSULA", "--json", "@o ñ.json"],
        vec!["-c", "@crlf.csv", "-l", "PENINSULA"],
        vec!["-c", "@cr.csv", "-l", "PENINSULA"],
        vec!["-c", "@nonl.csv", "-l", "PENINSULA"],
        vec!["-c", "@comments.csv", "-l", "PENINSULA", "--oc", "@oc.csv", "--of", "@of.csv"],
        vec!["-c", "@long.csv", "-l", "PENINSULA"],
    ]);
    let fbom = format!("{}{}", '\u{feff}', subj::RAW_J);
    let crlf = base.replace('\n', "\r\n");
    let cr = base.replace('\n', "\r");
    let nonl = base.trim_end().to_string();
    let long = format!("CONSUMO, ILU, ELECTRICIDAD, {}\n", vec!["1.5"; 8760 * 4].join(", "));
    for args in env_cases {
        let o = cli::run(
            &cli::sv(&args),
            &[("c.csv", base.as_bytes()), ("a b.csv", base.as_bytes()), ("f bom.csv", fbom.as_bytes()), ("crlf.csv", crlf.as_bytes()), ("cr.csv", cr.as_bytes()), ("nonl.csv", nonl.as_bytes()), ("comments.csv", b"# solo comentarios\n#META CTE_AREAREF: 10\n\n"), ("long.csv", long.as_bytes())],
            &[],
            Some(5),
            Duration::from_secs(20),
        );
        judge_cli(&o, &format!("{args:?}"), out);
    }
}

pub fn numeric_options_in_process(out: &mut Out) {
    let c = subj::parse(FIXED_BUILDING).unwrap();
    for area in [f32::NAN, f32::INFINITY, f32::NEG_INFINITY, 0.0, -1.0, 1e-3, 9.9e-4, f32::MAX, f32::MIN_POSITIVE] {
        for k in [f32::NAN, f32::INFINITY, -1.0, 0.0, 2.0, 1.0] {
            out.evals += 1;
            let r = trap(|| {
                if let Ok(ep) = cteepbd::energy_performance(&c, subj::fset("PENINSULA"), k, area, true) {
                    let ep = cte::incorpora_demanda_renovable_acs_nrb(ep);
                    let _ = ep.to_plain();
                    let _ = ep.to_xml();
                    let _ = serde_json::to_string(&ep);
                }
            });
            if let Err(p) = r {
                out.viol("library_never_panics", &["numeric_option"], format!("in-process: energy_performance(k_exp={k}, area={area})"), format!("panic: {p}"), "a result or a typed error");
            }
        }
    }
}

pub fn run(ctx: &Ctx) -> i32 {
    let shared = Shared::new("C16", ctx);
    let classes = Arc::new(Mutex::new(BTreeSet::new()));
    let shipped: Vec<(String, String)> = subj::shipped_components();
    let small = synthesized_components();
    let light = C16 { cli_every_state: false, classes: classes.clone() };
    let heavy = C16 { cli_every_state: true, classes: classes.clone() };
    let tag = |v: Vec<(String, String)>| v;
    // every single fault of every base, in-process; the CLI on one representative per outcome class
    explore(ctx, "single faults of the shipped component files (in-process; CLI per outcome class)", FaultSpace::new(tag(shipped.clone()), 1, false, KIND_COMP), light.clone(), shared.clone());
    // small bases: token/line/field and BYTE level faults, in-process AND through the real binary
    explore(ctx, "single faults (incl. byte level) of 8 synthesized component files (in-process + CLI on every file)", FaultSpace::new(small.clone(), 1, true, KIND_COMP), heavy.clone(), shared.clone());
    explore(ctx, "single faults of the factor files (in-process; CLI per outcome class)", FaultSpace::new(subj::shipped_factor_files().into_iter().chain(synthesized_factors()).collect(), 1, false, KIND_FACT), light.clone(), shared.clone());
    if !ctx.quick() {
        explore(ctx, "double faults of the synthesized component files (in-process; CLI per outcome class)", FaultSpace::new(small.clone(), 2, false, KIND_COMP), light.clone(), shared.clone());
        explore(ctx, "double faults of the synthesized factor file", FaultSpace::new(synthesized_factors(), 2, false, KIND_FACT), light.clone(), shared.clone());
        // token soups: every line of <= 4 tokens over a 14-token alphabet
        let toks = ["CONSUMO", "PRODUCCION", "AUX", "SALIDA", "DEMANDA", "ACS", "NEPB", "ELECTRICIDAD", "EAMBIENTE", "EL_INSITU", "1", "-1", "", "x"];
        let mut al = vec![];
        for t in toks {
            al.push(Letter::one(Line::Raw(t.to_string())));
        }
        explore(ctx, "token soups: one line of <= 5 tokens over 14 tokens", Soup { toks: toks.iter().map(|s| s.to_string()).collect(), max: 5 }, light.clone(), shared.clone());
        let _ = al;
    }
    // valid constructions: "every text" includes every valid file, and valid but unusual files reach code that
    // faults of the shipped files do not (several systems with auxiliaries, idle systems, mixed EPB / non-EPB
    // systems, cogeneration on several fuels). The construction alphabets of the other checks, judged for panics
    // only (library pipeline: read, evaluate with both load-matching modes, all output formats; CLI per class).
    let q = ctx.quick();
    explore(ctx, &format!("valid constructions: AUX systems (alphabet of C06), depth<={}", if q { 5 } else { 6 }), Wide { alphabet: super::c06::aux_alphabet(), bases: crate::alpha::bases(false), max_add: if q { 5 } else { 6 }, repeat: false }, light.clone(), shared.clone());
    explore(ctx, &format!("valid constructions: ambient / solar systems (alphabet of C05), depth<={}", if q { 2 } else { 3 }), Wide { alphabet: super::c05::env_alphabet(2), bases: crate::alpha::bases(false), max_add: if q { 2 } else { 3 }, repeat: false }, light.clone(), shared.clone());
    explore(ctx, &format!("valid constructions: AUX/ENV systems and metadata (alphabet of C10), depth<={}", if q { 3 } else { 4 }), Wide { alphabet: super::c10::aux_env_letters(), bases: crate::alpha::bases(false), max_add: if q { 3 } else { 4 }, repeat: false }, light.clone(), shared.clone());
    for (name, slots) in super::c15::construction_slots(q) {
        explore(ctx, &format!("valid constructions: DHW buildings (parameter space of C15), {name}"), Layered { slots, bases: crate::alpha::bases(false) }, light.clone(), shared.clone());
    }
    explore(ctx, "valid constructions: FLOW with values of five to eight significant digits (33725.21, 96485.72, 1234567.89), depth<=3", Wide { alphabet: crate::alpha::flow(2, &[3372521, 9648572, 123456789], crate::alpha::Rich::Base), bases: crate::alpha::bases(false), max_add: if q { 3 } else { 4 }, repeat: false }, light.clone(), shared.clone());
    explore(ctx, "valid constructions: VOCAB (every service, carrier, cogeneration fuel and production source)", Wide { alphabet: crate::alpha::vocab_letters(), bases: crate::alpha::vocab_base(), max_add: if q { 1 } else { 2 }, repeat: false }, light.clone(), shared.clone());
    explore(ctx, "valid constructions: COMBO (complete 12-step buildings)", Layered { slots: crate::alpha::combo_slots(if q { 12 } else { 16 }), bases: crate::alpha::bases(false) }, light.clone(), shared.clone());
    explore(ctx, &format!("valid constructions: FLOW, depth<={}", if q { 2 } else { 3 }), Wide { alphabet: crate::alpha::flow(2, &[0, 100, 300], crate::alpha::Rich::Wide), bases: crate::alpha::bases(false), max_add: if q { 2 } else { 3 }, repeat: false }, light.clone(), shared.clone());
    // numeric options and environment faults (one state, so that it is replayable like any other)
    explore(ctx, "numeric options in-process and on the command line; unreadable / non-UTF-8 / missing files", Layered { slots: vec![vec![Letter::one(Line::Raw(KIND_OPTIONS.to_string()))]], bases: vec![("options".to_string(), String::new())] }, light.clone(), shared.clone());
    let exits: Vec<u64> = CLI_EXITS.iter().map(|a| a.load(Ordering::Relaxed)).collect();
    let ncls = classes.lock().unwrap().len();
    // replays always include the out-of-process leg
    finish(
        ctx,
        &shared,
        &heavy,
        Finish {
            level: "fault_enumeration",
            rule: "base files = shipped component files + 8 synthesized files covering every component kind, legacy lines, metadata, output-before-electricity, auxiliaries only, two demand lines + shipped and synthesized factor files; faults: line {delete, duplicate, swap, truncate after}, field {delete, duplicate, swap, truncate after, replace by each of 46 menu tokens}, byte {truncate at / insert one of 7 characters at every offset} (small bases); deviation bound 1 (quick) / 2 (thorough) + token soups; every file through the in-process pipeline under catch_unwind, the real binary on every file of the small bases and on one representative per outcome class; numeric and environment options; non-trivial = file not accepted".into(),
            assumptions: strs(&["10 s horizon per process", "debug build of the binary (as the repository's tests use)", "non-UTF-8 argv is outside what the OS lets through here", "middle value fields of 12-step series are represented by the first six, the middle and the last two fields"]),
            required_regimes: strs(&["components:ok", "components:parse", "components:eval", "factors:ok", "factors:factors", "cli_run", "options_leg"]),
            extra: serde_json::json!({"cli_runs": CLI_RUNS.load(Ordering::Relaxed), "cli_exit_codes": {"0": exits[0], "1": exits[1], "64": exits[2], "65": exits[3], "73": exits[4], "74": exits[5]}, "outcome_classes": ncls}),
        },
    )
}

/// token soups as a space: a state is one line of tokens
pub struct Soup {
    pub toks: Vec<String>,
    pub max: usize,
}
#[derive(Clone, Debug, Hash, PartialEq, Eq)]
pub struct SoupS(Vec<u8>);
impl Space for Soup {
    type S = SoupS;
    fn init(&self) -> Vec<SoupS> {
        vec![SoupS(vec![])]
    }
    fn actions(&self, s: &SoupS, out: &mut Vec<u32>) {
        if s.0.len() < self.max {
            out.extend(0..self.toks.len() as u32);
        }
    }
    fn next(&self, s: &SoupS, a: u32) -> Option<SoupS> {
        let mut n = s.clone();
        n.0.push(a as u8);
        Some(n)
    }
    fn lines(&self, s: &SoupS) -> Option<(String, Vec<Line>)> {
        let l: Vec<&str> = s.0.iter().map(|i| self.toks[*i as usize].as_str()).collect();
        Some((format!("{KIND_COMP}{}\n", l.join(",")), vec![]))
    }
    fn depth(&self, s: &SoupS) -> usize {
        s.0.len()
    }
}

pub fn replay(path: &str) -> i32 {
    let c = C16 { cli_every_state: true, classes: Arc::new(Mutex::new(BTreeSet::new())) };
    replay_file("C16", &c, path)
}
