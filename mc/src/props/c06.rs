//! C06 All declared auxiliary electricity is counted once, for the right services.

use std::collections::{BTreeMap, BTreeSet};

use cteepbd::types::{Carrier, Energy};

use super::strs;
use crate::alpha;
use crate::core::*;
use crate::model::*;
use crate::refm::decl::{self, add_into, Kind};
use crate::subj;

#[derive(Clone, Copy)]
pub struct C06;

/// one data line as a component (the library's own line parsers), for the edit history below
fn component_of(line: &str) -> Option<Energy> {
    let body = line.split('#').next().unwrap_or("");
    if body.contains("CONSUMO") {
        line.parse::<cteepbd::types::EUsed>().ok().map(Energy::Used)
    } else if body.contains("PRODUCCION") {
        line.parse::<cteepbd::types::EProd>().ok().map(Energy::Prod)
    } else if body.contains("SALIDA") {
        line.parse::<cteepbd::types::EOut>().ok().map(Energy::Out)
    } else if body.contains("AUX") {
        line.parse::<cteepbd::types::EAux>().ok().map(Energy::Aux)
    } else {
        None
    }
}

/// auxiliary energy by (system, service) of a component set
fn aux_table(c: &cteepbd::Components) -> BTreeMap<(i32, String), Vec<f64>> {
    let mut m: BTreeMap<(i32, String), Vec<f64>> = BTreeMap::new();
    for e in &c.data {
        if let Energy::Aux(a) = e {
            let v: Vec<f64> = a.values.iter().map(|x| *x as f64).collect();
            add_into(m.entry((a.id, format!("{}", a.service))).or_default(), &v);
        }
    }
    m.retain(|_, v| v.iter().any(|x| x.abs() > 1e-9));
    m
}

/// History: the file without its last line is read (and normalized), the last line is then added to the
/// component list through the public API and the set is normalized again. The auxiliaries must end where they end
/// when the whole file is read at once (the state reached from elsewhere = the state reached from the start).
fn edit_history(text: &str, whole: &cteepbd::Components, t: f64, out: &mut Out) {
    let lines: Vec<&str> = text.lines().collect();
    let Some((last, head)) = lines.split_last() else { return };
    let Some(extra) = component_of(last) else { return };
    let head_text: String = head.iter().map(|l| format!("{l}\n")).collect();
    let Ok(mut c1) = subj::parse(&head_text) else { return };
    if !c1.data.iter().any(|c| matches!(c, Energy::Aux(_))) || c1.data.iter().map(|c| cteepbd::types::HasValues::values(c).len()).max() != Some(cteepbd::types::HasValues::values(&extra).len()) {
        return;
    }
    c1.data.push(extra);
    out.evals += 1;
    let Ok(c2) = c1.normalize() else {
        // refusing the edited set is a typed answer; reading the whole file succeeded, so this is a difference
        out.viol("same_assignment_after_edit_and_renormalize", &["history"], "read(file minus last line) + push(last line) + normalize()", "error", "the assignment of the whole file");
        return;
    };
    out.compared += 1;
    out.regime("edit_history");
    let (a2, a3) = (aux_table(&c2), aux_table(whole));
    let same = a2.len() == a3.len() && a2.iter().all(|(k, v)| a3.get(k).map(|w| v.len() == w.len() && v.iter().zip(w).all(|(x, y)| (x - y).abs() <= t)).unwrap_or(false));
    if !same {
        out.viol("same_assignment_after_edit_and_renormalize", &["history"], "read(file minus last line) + push(last line) + normalize()", format!("{a2:?}"), format!("as when the whole file is read: {a3:?}"));
    }
}

impl StateCheck for C06 {
    fn check(&self, text: &str, _l: &[Line], out: &mut Out) {
        let decls = decl::read(text);
        if !decls.iter().any(|d| d.kind == Kind::Aux) {
            return;
        }
        let comps = match subj::parse(text) {
            Ok(c) => c,
            Err(_) => {
                // a typed refusal is not a silent loss
                out.typed_errors += 1;
                out.regime("typed_refusal");
                return;
            }
        };
        out.evals += 1;
        let n = decls.iter().map(|d| d.vals.len()).max().unwrap_or(0);
        // the clauses compare auxiliary energy (shares = aux x output / total output): the tolerance follows the auxiliary values
        let maxv = decls.iter().filter(|d| d.kind == Kind::Aux).flat_map(|d| d.vals.iter()).fold(0.0f64, |a, b| a.max(b.abs()));
        let t = 1e-4 + 4e-6 * maxv * decls.len() as f64;
        edit_history(text, &comps, t, out);
        // every component line in turn as the one pushed after the rest was read, and a second normalization
        {
            let aux_rows = |c: &cteepbd::Components| -> BTreeMap<String, Vec<f64>> { crate::hist::table(c).into_iter().filter(|(k, _)| k.contains("|AUX|")).collect() };
            let whole = aux_rows(&comps);
            for v in crate::hist::variants(text, 8) {
                out.evals += 1;
                out.compared += 1;
                match &v.comps {
                    Ok(c) => {
                        if let Some(d) = crate::hist::table_diff(&aux_rows(c), &whole, t) {
                            out.viol("same_assignment_after_edit_and_renormalize", &["history"], v.desc.clone(), d, "the assignment of the whole file read at once");
                        }
                    }
                    Err(e) => out.viol("same_assignment_after_edit_and_renormalize", &["history"], v.desc.clone(), format!("error: {e}"), "the assignment of the whole file read at once"),
                }
            }
        }
        // declared auxiliaries per system
        let mut declared: BTreeMap<i32, Vec<f64>> = BTreeMap::new();
        for d in decls.iter().filter(|d| d.kind == Kind::Aux) {
            add_into(declared.entry(d.id).or_default(), &d.vals);
        }
        // what the subject holds after service assignment
        let mut after: BTreeMap<i32, BTreeMap<String, Vec<f64>>> = BTreeMap::new();
        for c in &comps.data {
            if let Energy::Aux(a) = c {
                let v: Vec<f64> = a.values.iter().map(|x| *x as f64).collect();
                add_into(after.entry(a.id).or_default().entry(format!("{}", a.service)).or_default(), &v);
                if a.values.iter().any(|x| *x < -1e-6) {
                    out.viol("no_negative_share", &["mixed_sign_outputs"], "", format!("system {} service {}: {:?}", a.id, a.service, a.values), ">= 0");
                }
            }
        }
        let multi_systems = declared.keys().filter(|id| decls.iter().filter(|d| d.kind == Kind::Used && d.id == **id).map(|d| d.srv.clone()).collect::<BTreeSet<_>>().len() > 1).count();
        let mut feats_common: Vec<&str> = vec![];
        if declared.len() > 1 {
            feats_common.push("several_systems_with_aux");
        }
        if multi_systems > 0 && declared.len() > 1 {
            feats_common.push("multi_service_system_beside_another");
        }
        // systems all of whose uses are non-EPB (NEPB / COGEN): they serve no EPB service, so "all of it on the
        // one service" and "counted as EPB use" cannot both apply; outside the property (DESIGN.md, reading decisions)
        let mut outside: BTreeSet<i32> = BTreeSet::new();
        for (id, dv) in &declared {
            out.compared += 1;
            let all_services: BTreeSet<String> = decls.iter().filter(|d| d.kind == Kind::Used && d.id == *id).map(|d| d.srv.clone()).collect();
            let services: BTreeSet<String> = all_services.iter().filter(|s| *s != "NEPB" && *s != "COGEN").cloned().collect();
            let has_nonepb = services.len() != all_services.len();
            if has_nonepb && services.is_empty() {
                out.regime("system_without_epb_service");
                outside.insert(*id);
                continue;
            }
            let got = after.get(id).cloned().unwrap_or_default();
            // per-step sum preserved
            let mut tot = vec![0.0; n];
            for v in got.values() {
                add_into(&mut tot, v);
            }
            let mut dvp = dv.clone();
            dvp.resize(n, 0.0);
            tot.resize(n, 0.0);
            // outputs of the system per service
            let mut q: BTreeMap<String, Vec<f64>> = BTreeMap::new();
            for d in decls.iter().filter(|d| d.kind == Kind::Out && d.id == *id) {
                add_into(q.entry(d.srv.clone()).or_default(), &d.vals);
            }
            let zero_out_steps: Vec<usize> = (0..n).filter(|i| q.values().all(|v| v.get(*i).copied().unwrap_or(0.0) == 0.0)).collect();
            let mut feats = feats_common.clone();
            if services.len() > 1 {
                feats.push("multi_service");
                out.nontrivial = true;
            }
            if services.len() != 1 {
                feats.push("proportional_split");
                if zero_out_steps.iter().any(|i| dvp[*i] > 0.0) {
                    feats.push("aux_at_step_without_output");
                }
                if q.values().flatten().any(|x| *x < 0.0) && q.values().flatten().any(|x| *x > 0.0) {
                    feats.push("mixed_sign_outputs");
                }
            }
            for f in &feats {
                out.regime(format!("feature:{f}"));
            }
            if !(0..n).all(|i| (tot[i] - dvp[i]).abs() <= t) {
                out.viol("per_system_per_step_sum_preserved", &feats, "", format!("system {id}: after assignment {tot:?} by service {got:?}"), format!("declared {dvp:?}"));
            }
            // one EPB service beside non-EPB uses: the auxiliaries belong to that service when the declared outputs
            // name no other one; with outputs for services the system has no use for, the statement does not decide
            let outputs_within = q.keys().all(|s| services.contains(s));
            if has_nonepb {
                out.regime("epb_and_non_epb_uses_on_one_system");
            }
            if services.len() == 1 && has_nonepb && !outputs_within {
                out.regime("undecided_split");
            } else if services.len() == 1 {
                out.regime("single_service");
                let s = services.iter().next().unwrap();
                let ok = got.len() <= 1 && got.get(s).map(|v| (0..n).all(|i| (v.get(i).copied().unwrap_or(0.0) - dvp[i]).abs() <= t)).unwrap_or(dvp.iter().all(|x| *x == 0.0));
                if !ok {
                    out.viol("single_service_gets_all", &feats, "", format!("system {id}: {got:?}"), format!("all {dvp:?} on {s}"));
                }
            } else {
                // proportional to |output| at steps with output
                for i in 0..n {
                    let den: f64 = q.values().map(|v| v.get(i).copied().unwrap_or(0.0).abs()).sum();
                    if den == 0.0 {
                        continue;
                    }
                    for (s, v) in &q {
                        let exp = dvp[i] * v.get(i).copied().unwrap_or(0.0).abs() / den;
                        let g = got.get(s).and_then(|x| x.get(i)).copied().unwrap_or(0.0);
                        if (g - exp).abs() > t {
                            out.viol("share_proportional_to_output_magnitude", &feats, "", format!("system {id} service {s} step {i}: {g}"), format!("{exp} = aux {} x |{}| / {den}", dvp[i], v.get(i).copied().unwrap_or(0.0)));
                        }
                    }
                    for s in got.keys() {
                        if !q.contains_key(s) && got[s].get(i).copied().unwrap_or(0.0).abs() > t {
                            out.viol("share_proportional_to_output_magnitude", &feats, "", format!("system {id}: share on {s} which has no output"), "0");
                        }
                    }
                }
            }
        }
        // systems without declared auxiliaries hold none
        for id in after.keys() {
            if !declared.contains_key(id) {
                out.viol("other_systems_untouched", &feats_common, "", format!("auxiliaries appeared on system {id}"), "none declared");
            }
        }
        // in the balance: EPB electricity use = EPB electricity uses + declared auxiliaries
        let mut epb_el = vec![0.0; n];
        for d in decls.iter().filter(|d| d.kind == Kind::Used && d.tag == "ELECTRICIDAD" && d.srv != "NEPB" && d.srv != "COGEN") {
            add_into(&mut epb_el, &d.vals);
        }
        let only_el = !decls.iter().any(|d| (d.kind == Kind::Used && d.tag == "ELECTRICIDAD") || (d.kind == Kind::Prod && (d.tag == "EL_INSITU" || d.tag == "EL_COGEN")));
        let mut feats = feats_common.clone();
        if only_el {
            feats.push("aux_is_only_electricity");
            out.regime("feature:aux_is_only_electricity");
        }
        for (id, v) in &declared {
            if !outside.contains(id) {
                add_into(&mut epb_el, v);
            }
        }
        // auxiliaries of the systems outside the property may or may not be EPB use: a band
        let mut epb_hi = epb_el.clone();
        for (id, v) in &declared {
            if outside.contains(id) {
                add_into(&mut epb_hi, v);
            }
        }
        epb_hi.resize(n, 0.0);
        epb_el.resize(n, 0.0);
        for lm in [false, true] {
            out.evals += 1;
            match subj::eval(&comps, subj::fset("PENINSULA"), 0.0, 1.0, lm) {
                Ok(ep) => {
                    out.compared += 1;
                    let got: Vec<f64> = ep.balance_cr.get(&Carrier::ELECTRICIDAD).map(|b| b.used.epus_t.iter().map(|x| *x as f64).collect()).unwrap_or_default();
                    let mut g = got.clone();
                    g.resize(n, 0.0);
                    if !(0..n).all(|i| g[i] >= epb_el[i] - t && g[i] <= epb_hi[i] + t) {
                        out.viol("counted_in_balance_as_epb_electricity", &feats, format!("load_matching={lm}"), format!("balance_cr[ELECTRICIDAD].used.epus_t = {got:?}"), format!("EPB electricity uses + declared auxiliaries = {epb_el:?}"));
                    }
                }
                Err(_) => out.typed_errors += 1,
            }
        }
    }
}

pub fn aux_alphabet() -> Vec<Letter> {
    let mut al = vec![];
    // system 1: granular lines
    for v in [k(&[4, 0]), k(&[2, 2]), k(&[0, 6])] {
        al.push(Letter::one(a(Some(1), &v)));
    }
    al.push(Letter::one(u(Some(1), "ACS", "GASNATURAL", &k(&[3, 1]))));
    al.push(Letter::one(u(Some(1), "REF", "ELECTRICIDAD", &k(&[1, 0]))));
    al.push(Letter::many(vec![u(Some(1), "ACS", "GASNATURAL", &k(&[3, 1])), u(Some(1), "CAL", "GASNATURAL", &k(&[1, 0]))]));
    al.push(Letter::many(vec![u(Some(1), "CAL", "GASNATURAL", &k(&[3, 1])), u(Some(1), "REF", "ELECTRICIDAD", &k(&[1, 3]))]));
    for v in [k(&[3, 1]), k(&[2, 0]), k(&[0, 1])] {
        al.push(Letter::one(o(1, "ACS", &v)));
        al.push(Letter::one(o(1, "CAL", &v)));
        al.push(Letter::one(o(1, "REF", &v.iter().map(|x| -x).collect::<Vec<_>>())));
    }
    // system 2: whole systems as composite letters (so that two systems interact within the depth bound)
    for v in [k(&[4, 0]), k(&[1, 1])] {
        al.push(Letter::many(vec![a(Some(2), &v), u(Some(2), "ACS", "GASNATURAL", &k(&[1, 1]))]));
        al.push(Letter::many(vec![a(Some(2), &v), u(Some(2), "ACS", "GASNATURAL", &k(&[1, 1])), u(Some(2), "CAL", "GASNATURAL", &k(&[1, 1])), o(2, "ACS", &k(&[1, 1])), o(2, "CAL", &k(&[1, 3]))]));
        al.push(Letter::many(vec![a(Some(2), &v), u(Some(2), "CAL", "GASNATURAL", &k(&[1, 1])), u(Some(2), "REF", "ELECTRICIDAD", &k(&[1, 1])), o(2, "CAL", &k(&[3, 0])), o(2, "REF", &[-100, -100])]));
    }
    // an idle system: auxiliaries and outputs declared but zero at every step
    al.push(Letter::one(a(Some(1), &k(&[0, 0]))));
    al.push(Letter::many(vec![o(1, "ACS", &k(&[0, 0])), o(1, "CAL", &k(&[0, 0]))]));
    // non-EPB and cogeneration uses on system 1: they are not services the auxiliaries can go to
    al.push(Letter::one(u(Some(1), "NEPB", "ELECTRICIDAD", &k(&[2, 2]))));
    al.push(Letter::many(vec![u(Some(1), "COGEN", "GASNATURAL", &k(&[4, 4])), p(Some(1), "EL_COGEN", &k(&[1, 1]))]));
    // legacy (system 0) lines, PV
    al.push(Letter::one(a(None, &k(&[1, 1]))));
    al.push(Letter::one(u(None, "ACS", "GASNATURAL", &k(&[1, 1]))));
    al.push(Letter::one(p(Some(0), "EL_INSITU", &k(&[1, 3]))));
    al
}

/// one two-service system whose declared outputs differ by orders of magnitude (0.01 kWh beside 30 000 kWh), also seasonally
pub fn aux_magnitude_alphabet() -> Vec<Letter> {
    let mut al = vec![Letter::one(a(Some(1), &k(&[4, 2]))), Letter::one(a(Some(1), &[3, 2500]))];
    al.push(Letter::many(vec![u(Some(1), "ACS", "GASNATURAL", &k(&[3, 1])), u(Some(1), "CAL", "GASNATURAL", &k(&[1, 2]))]));
    al.push(Letter::many(vec![u(Some(1), "CAL", "GASNATURAL", &k(&[3, 1])), u(Some(1), "REF", "ELECTRICIDAD", &k(&[1, 3]))]));
    al.push(Letter::one(u(Some(1), "ACS", "GASNATURAL", &k(&[2, 2]))));
    for srv in ["ACS", "CAL", "REF"] {
        let sg: i64 = if srv == "REF" { -1 } else { 1 };
        for v in [vec![1, 2], k(&[3, 1]), k(&[30000, 20000]), k(&[30000, 0]), vec![0, 1250]] {
            al.push(Letter::one(o(1, srv, &v.iter().map(|x| x * sg).collect::<Vec<_>>())));
        }
    }
    al
}

pub fn run(ctx: &Ctx) -> i32 {
    let shared = Shared::new("C06", ctx);
    let depth = if ctx.quick() { 6 } else { 8 };
    explore(ctx, "AUX magnitudes: outputs of one system from 0.01 kWh to 30 000 kWh, depth<=5", Wide { alphabet: aux_magnitude_alphabet(), bases: alpha::bases(false), max_add: if ctx.quick() { 5 } else { 6 }, repeat: false }, C06, shared.clone());
    explore(ctx, &format!("AUX wide depth<={depth}"), Wide { alphabet: aux_alphabet(), bases: alpha::bases(false), max_add: depth, repeat: false }, C06, shared.clone());
    let seeded: Vec<Letter> = vec![
        Letter::one(a(Some(7), &vec![100; 12])),
        Letter::one(a(None, &vec![200; 12])),
        Letter::one(u(Some(7), "ACS", "GASNATURAL", &vec![300; 12])),
        Letter::one(u(Some(7), "CAL", "GASNATURAL", &vec![300; 12])),
        Letter::one(o(7, "ACS", &vec![100; 12])),
        Letter::one(o(7, "CAL", &(0..12).map(|i| if i < 6 { 200 } else { 0 }).collect::<Vec<_>>())),
    ];
    {
        let n = if ctx.quick() { 14 } else { 16 };
        explore(ctx, &format!("COMBO: complete 12-step buildings, {n} subsystems absent/present"), Layered { slots: alpha::combo_slots(n), bases: alpha::bases(false) }, C06, shared.clone());
    }
    explore(ctx, "seeded: shipped files + <=3 AUX-model lines", Wide { alphabet: seeded, bases: alpha::shipped_bases(), max_add: 3, repeat: false }, C06, shared.clone());
    finish(
        ctx,
        &shared,
        &C06,
        Finish {
            level: "model_checking",
            rule: "AUX model: systems {1,2,legacy} x {AUX, uses of ACS/CAL (gas) and REF (electricity), outputs ACS/CAL (+) and REF (-)} x vectors incl. zero-output steps, all sets up to the depth; oracle on every successfully parsed file with an AUX line; non-trivial = a multi-service system has auxiliaries".into(),
            assumptions: strs(&["a typed error (refusal) is not a silent loss and is accepted", "systems in the model only serve EPB services", "values compared at 1e-4"]),
            required_regimes: strs(&["edit_history", "single_service", "feature:multi_service", "feature:proportional_split", "feature:multi_service_system_beside_another", "feature:several_systems_with_aux", "feature:aux_at_step_without_output", "feature:mixed_sign_outputs", "feature:aux_is_only_electricity", "typed_refusal"]),
            extra: serde_json::json!({}),
        },
    )
}

pub fn replay(path: &str) -> i32 {
    replay_file("C06", &C06, path)
}
