//! C13 Renewable energy ratios are proper fractions and perimeters are nested.

use cteepbd::types::EnergyPerformance;

use super::{flow_models, strs, FlowSpec};
use crate::core::*;
use crate::model::*;
use crate::subj::{self, close};

#[derive(Clone, Copy)]
pub struct C13;

pub fn features(ep: &EnergyPerformance) -> Vec<&'static str> {
    use cteepbd::types::{Carrier, ProdSource};
    let mut f = vec![];
    if let Some(el) = ep.balance_cr.get(&Carrier::ELECTRICIDAD) {
        if el.exp.by_src_an.get(&ProdSource::EL_INSITU).copied().unwrap_or(0.0) > 0.0 {
            f.push("pv_exported");
        }
        if el.exp.by_src_an.get(&ProdSource::EL_COGEN).copied().unwrap_or(0.0) > 0.0 {
            f.push("chp_exported");
        }
        if el.prod.by_src_an.contains_key(&ProdSource::EL_COGEN) {
            f.push("chp");
        }
    }
    if ep.balance_cr.iter().any(|(c, b)| !c.is_nearby() && b.used.cgnus_an > 0.0) {
        f.push("chp_fuel_not_nearby");
    }
    if ep.balance_cr.iter().any(|(c, b)| c.is_onsite() && b.exp.an > 0.0) {
        f.push("thermal_onsite_exported");
    }
    f
}

fn check_ep(ep: &EnergyPerformance, cfg: &str, out: &mut Out) {
    let mag = subj::magnitude(&ep.components, &ep.wfactors);
    let b = ep.balance.we.b;
    let (ren, nren) = (b.ren as f64, b.nren as f64);
    let tot = ren + nren;
    let feats = features(ep);
    out.compared += 1;
    if tot == 0.0 {
        out.regime("total_zero");
        for (n, v) in [("rer", ep.rer), ("rer_nrb", ep.rer_nrb), ("rer_onst", ep.rer_onst)] {
            if v != 0.0 {
                out.viol("zero_total_reports_zero", &feats, cfg, format!("{n}={v}"), "0");
            }
        }
        return;
    }
    if tot <= 1e-3 * mag {
        out.regime("total_in_noise");
        return;
    }
    out.nontrivial = true;
    let rer = ep.rer as f64;
    // ratios are quotients by the total: energy tolerance / total
    let s = 1e-4 + 2.0 * subj::tol(mag) / tot;
    if !close(rer, ren / tot, s) {
        out.viol("rer_is_ren_over_total", &feats, cfg, format!("rer={rer}"), format!("{}", ren / tot));
    }
    if !(rer >= -s && rer <= 1.0 + s) {
        out.viol("rer_in_unit_interval", &feats, cfg, format!("rer={rer} (ren={ren} nren={nren})"), "[0,1]");
    }
    let (onst, nrb) = (ep.rer_onst as f64, ep.rer_nrb as f64);
    if !(onst >= -s) {
        out.viol("rer_onst_nonneg", &feats, cfg, format!("rer_onst={onst}"), ">= 0");
    }
    if !(onst <= nrb + s) {
        out.viol("rer_onst_le_rer_nrb", &feats, cfg, format!("rer_onst={onst} rer_nrb={nrb}"), "onst <= nrb");
    }
    if !(nrb <= rer + s) {
        out.viol("rer_nrb_le_rer", &feats, cfg, format!("rer_nrb={nrb} rer={rer}"), "nrb <= rer");
    }
    if !(nrb >= -s) {
        out.viol("rer_nrb_nonneg", &feats, cfg, format!("rer_nrb={nrb}"), ">= 0");
    }
    if onst > 0.0 && onst < nrb && nrb < rer {
        out.regime("strictly_nested");
    }
    for f in &feats {
        out.regime(format!("feature:{f}"));
    }
}

impl StateCheck for C13 {
    fn check(&self, text: &str, _l: &[Line], out: &mut Out) {
        let comps = match subj::parse(text) {
            Ok(c) => c,
            Err(_) => {
                out.typed_errors += 1;
                return;
            }
        };
        if comps.data.is_empty() {
            return;
        }
        let users: [(&str, Option<(f32, f32, f32)>); 3] = [("default", None), ("1,0,0", Some((1.0, 0.0, 0.0))), ("0.5,0.5,0.1", Some((0.5, 0.5, 0.1)))];
        for loc in subj::LOCS {
            for (un, uf) in users {
                if loc != "PENINSULA" && un != "default" {
                    continue;
                }
                let f = if un == "default" { subj::fset(loc).clone() } else { subj::reg_user(loc, uf, uf) };
                for lm in [false, true] {
                    let cfg = format!("loc={loc} red1/red2={un} k_exp=0 load_matching={lm}");
                    out.evals += 1;
                    match subj::eval(&comps, &f, 0.0, 1.0, lm) {
                        Ok(ep) => check_ep(&ep, &cfg, out),
                        Err(_) => out.typed_errors += 1,
                    }
                }
            }
        }
    }
}

pub fn run(ctx: &Ctx) -> i32 {
    let shared = Shared::new("C13", ctx);
    flow_models(ctx, &shared, C13, FlowSpec { quick_depth: 3, thorough_depth: 4, extra: vec![], deep: true, heavy_oracle: false, seeded: true, t3: true, valuesets: true });
    finish(
        ctx,
        &shared,
        &C13,
        Finish {
            level: "model_checking",
            rule: "every FLOW state (nearby and distant carriers, CHP on both kinds of fuel) x 4 regulatory sets (+ user RED1/RED2 on PENINSULA) x load matching, k_exp = 0; non-trivial = total primary energy above noise (1e-3*magnitude)".into(),
            assumptions: strs(&["ratios compared with 1e-4 absolute slack", "states whose total primary energy is below 1e-3*magnitude are counted (regime total_in_noise) but not judged"]),
            required_regimes: strs(&["strictly_nested", "feature:pv_exported", "feature:chp_exported", "feature:chp_fuel_not_nearby", "feature:thermal_onsite_exported"]),
            extra: serde_json::json!({}),
        },
    )
}

pub fn replay(path: &str) -> i32 {
    replay_file("C13", &C13, path)
}
