//! C08 Simplifying the factor set never changes the result.

use super::{flow_models, strs, FlowSpec};
use crate::cmp::show;
use crate::core::*;
use crate::model::*;
use crate::subj;
use crate::tree::result_flat;

#[derive(Clone, Copy)]
pub struct C08;

fn catch<R>(f: impl FnOnce() -> R) -> Result<R, String> {
    std::panic::catch_unwind(std::panic::AssertUnwindSafe(f)).map_err(|e| {
        if let Some(s) = e.downcast_ref::<&str>() {
            s.to_string()
        } else if let Some(s) = e.downcast_ref::<String>() {
            s.clone()
        } else {
            "panic".into()
        }
    })
}

impl StateCheck for C08 {
    fn check(&self, text: &str, _l: &[Line], out: &mut Out) {
        let comps = match subj::parse(text) {
            Ok(c) => c,
            Err(_) => {
                out.typed_errors += 1;
                return;
            }
        };
        if comps.data.is_empty() {
            return;
        }
        check_comps(&comps, "", &["PENINSULA", "SKEW", "SKEW+COGEN"], out);
        // "whatever components the building has": component sets assembled through the library (part of the file read, one
        // component pushed), evaluated as they are and after normalizing again
        if text.lines().count() <= 6 {
            for v in crate::hist::variants_raw(text, 3) {
                if let Ok(c) = &v.comps {
                    out.regime("history_of_calls");
                    check_comps(c, &format!("; {}", v.desc), &["PENINSULA"], out);
                }
            }
        }
    }
}

fn check_comps(comps: &cteepbd::Components, how: &str, sets: &[&str], out: &mut Out) {
    {
        let has_out = comps.data.iter().any(|c| c.is_out());
        let has_aux = comps.data.iter().any(|c| c.is_aux());
        for fs in sets.iter().copied() {
            let f = subj::fset(fs);
            let stripped = match catch(|| f.clone().strip(&comps)) {
                Ok(s) => s,
                Err(p) => {
                    let mut feats = vec![];
                    if has_out {
                        feats.push("output_line_present");
                    }
                    out.viol("strip_does_not_panic", &feats, format!("factors={fs}{how}"), format!("panic: {p}"), "a simplified factor set");
                    continue;
                }
            };
            if stripped.wdata.len() < f.wdata.len() {
                out.nontrivial = true;
            }
            for (k, lm) in [(0.0f32, false), (1.0, true)] {
                let cfg = format!("factors={fs} k_exp={k} load_matching={lm}{how}");
                out.evals += 2;
                let full = subj::eval(&comps, f, k, 1.0, lm);
                let simp = match catch(|| subj::eval(&comps, &stripped, k, 1.0, lm)) {
                    Ok(r) => r,
                    Err(p) => {
                        out.viol("evaluation_with_simplified_set_does_not_panic", &[], &cfg, format!("panic: {p}"), "result");
                        continue;
                    }
                };
                out.compared += 1;
                match (full, simp) {
                    (Ok(a), Ok(b)) => {
                        // the CTE indicator computed from the result (what the program prints) is part of the result
                        let da = cteepbd::cte::fraccion_renovable_acs_nrb(&a).map_err(|e| subj::err_kind(&e));
                        let db = catch(|| cteepbd::cte::fraccion_renovable_acs_nrb(&b).map_err(|e| subj::err_kind(&e)));
                        match (&da, &db) {
                            (Ok(x), Ok(Ok(y))) if (x - y).abs() <= 1e-4 => out.regime("dhw_fraction_value"),
                            (Err(x), Ok(Err(y))) if x == y => {}
                            _ => out.viol("same_dhw_indicator", &[], &cfg, format!("simplified: {db:?}"), format!("full: {da:?}")),
                        }
                        let (fa, fb) = (result_flat(&a), result_flat(&b));
                        let mag = subj::magnitude(&comps, f);
                        let ratios = crate::cmp::ratios_ok(&a, mag) && crate::cmp::ratios_ok(&b, mag);
                        let d = crate::cmp::cmp_flat_m(&fa, &fb, subj::tol(mag) * 0.05, 2e-6, mag, mag, &|p| p.starts_with("rer") && !ratios, &|_, x| x);
                        if !d.is_empty() {
                            let (x, y) = show(&d);
                            out.viol("same_results", &[], &cfg, format!("simplified: {y}"), format!("full: {x}"));
                        }
                        if a.balance.exp.nepus > 0.0 {
                            out.regime("exports_to_nepb");
                        }
                        if a.balance_cr.values().any(|b| b.exp.an > 0.0 && format!("{}", b.carrier) != "ELECTRICIDAD") {
                            out.regime("thermal_export");
                        }
                        if has_out {
                            out.regime("output_lines");
                        }
                        if has_aux && !comps.data.iter().any(|c| c.is_used() && format!("{}", c.carrier()) == "ELECTRICIDAD") {
                            out.regime("aux_only_electricity");
                        }
                        if a.balance.used.cgnus > 0.0 {
                            out.regime("cogeneration");
                        }
                    }
                    (Err(a), Err(b)) => {
                        out.typed_errors += 2;
                        if subj::err_kind(&a) != subj::err_kind(&b) {
                            out.viol("same_error_kind", &[], &cfg, format!("simplified: {b}"), format!("full: {a}"));
                        }
                    }
                    (Ok(_), Err(e)) => out.viol("success_not_turned_into_error", &[], &cfg, format!("simplified set: {e}"), "Ok as with the full set"),
                    (Err(e), Ok(_)) => out.viol("error_not_turned_into_success", &[], &cfg, "simplified set: Ok", format!("full set: {e}")),
                }
            }
        }
    }
}

fn extra_letters() -> Vec<Letter> {
    vec![
        // output lines sorted before / after the first electricity line (ids -1, 0, 9)
        Letter::one(o(-1, "CAL", &k(&[3, 1]))),
        Letter::one(o(0, "ACS", &k(&[1, 1]))),
        Letter::one(o(9, "REF", &[-300, -100])),
        Letter::one(a(Some(1), &k(&[1, 1]))),
        Letter::one(a(Some(-1), &k(&[0, 1]))),
        Letter::one(d("ACS", &k(&[3, 3]))),
        Letter::one(u(Some(0), "NEPB", "GASNATURAL", &k(&[1, 0]))),
        Letter::one(u(Some(0), "ACS", "TERMOSOLAR", &k(&[1, 3]))),
        Letter::one(p(Some(0), "TERMOSOLAR", &k(&[3, 3]))),
        // declared sources that produce nothing, systems that only serve non-EPB uses (their auxiliaries stay non-EPB)
        Letter::one(p(Some(0), "EL_INSITU", &k(&[0, 0]))),
        Letter::many(vec![p(Some(8), "EL_COGEN", &k(&[0, 0])), u(Some(8), "COGEN", "GASNATURAL", &k(&[0, 0]))]),
        Letter::one(p(Some(1), "EAMBIENTE", &k(&[0, 0]))),
        Letter::many(vec![u(Some(6), "NEPB", "GASNATURAL", &k(&[3, 3])), a(Some(6), &k(&[1, 1]))]),
        Letter::many(vec![u(Some(6), "NEPB", "EAMBIENTE", &k(&[1, 0])), a(Some(6), &k(&[0, 1]))]),
        // a cogeneration system with its own auxiliaries (its only CONSUMO line has service COGEN)
        Letter::many(vec![p(Some(5), "EL_COGEN", &k(&[3, 1])), u(Some(5), "COGEN", "GASNATURAL", &k(&[6, 2])), a(Some(5), &k(&[1, 1]))]),
        Letter::one(d("ACS", &k(&[1, 3]))),
        Letter::one(u(Some(4), "ACS", "RED1", &k(&[1, 1]))),
    ]
}

pub fn run(ctx: &Ctx) -> i32 {
    let shared = Shared::new("C08", ctx);
    flow_models(ctx, &shared, C08, FlowSpec { quick_depth: 3, thorough_depth: 4, extra: extra_letters(), deep: true, heavy_oracle: true, seeded: true, t3: false, valuesets: false });
    finish(
        ctx,
        &shared,
        &C08,
        Finish {
            level: "model_checking",
            rule: "every FLOW state extended with output, auxiliary and demand lines (ids chosen so that an output line sorts before / after the first electricity line) x 3 prepared factor sets x 2 (k,load matching): evaluation with the full set vs with Factors::strip of it; non-trivial = strip removed at least one factor".into(),
            assumptions: strs(&["results compared with 2e-6 relative + 1e-6*magnitude (hash order may differ between the two evaluations)", "a panic inside strip or the evaluation is a violation of this property (it 'never crashes')"]),
            required_regimes: strs(&["exports_to_nepb", "thermal_export", "output_lines", "cogeneration", "dhw_fraction_value"]),
            extra: serde_json::json!({}),
        },
    )
}

pub fn replay(path: &str) -> i32 {
    replay_file("C08", &C08, path)
}
