//! C05 Parsing keeps declared data and completes ambient/solar production exactly.

use std::collections::BTreeMap;

use cteepbd::types::{Energy, HasValues};
use cteepbd::Components;

use super::strs;
use crate::alpha;
use crate::core::*;
use crate::model::*;
use crate::refm::decl::{self, add_into, Decl, Kind};
use crate::subj;

#[derive(Clone, Copy)]
pub struct C05;

fn veq(a: &[f32], b: &[f64], t: f64) -> bool {
    a.len() == b.len() && a.iter().zip(b).all(|(x, y)| (*x as f64 - y).abs() <= t)
}

fn matches(e: &Energy, d: &Decl, t: f64) -> bool {
    match (e, &d.kind) {
        (Energy::Used(u), Kind::Used) => u.id == d.id && format!("{}", u.service) == d.srv && format!("{}", u.carrier) == d.tag && veq(&u.values, &d.vals, t) && u.comment == d.comment,
        (Energy::Prod(p), Kind::Prod) => p.id == d.id && format!("{}", p.source) == d.tag && veq(&p.values, &d.vals, t) && p.comment == d.comment,
        (Energy::Out(o), Kind::Out) => o.id == d.id && format!("{}", o.service) == d.srv && veq(&o.values, &d.vals, t) && o.comment == d.comment,
        _ => false,
    }
}

/// canonical multiset rendering of a component list (values rounded to 1e-4)
fn canon(c: &Components) -> Vec<String> {
    let mut v: Vec<String> = c
        .data
        .iter()
        .map(|e| {
            let vals: Vec<String> = e.values().iter().map(|x| format!("{:.4}", x)).collect();
            let head = match e {
                Energy::Used(u) => format!("U {} {} {}", u.id, u.service, u.carrier),
                Energy::Prod(p) => format!("P {} {}", p.id, p.source),
                Energy::Aux(a) => format!("A {} {}", a.id, a.service),
                Energy::Out(o) => format!("O {} {}", o.id, o.service),
            };
            format!("{head} [{}] #{}", vals.join(","), e.comment())
        })
        .collect();
    v.sort();
    v.push(format!("needs {:?}", c.needs));
    v
}

impl StateCheck for C05 {
    fn check(&self, text: &str, _l: &[Line], out: &mut Out) {
        let decls = decl::read(text);
        let comps = match subj::parse(text) {
            Ok(c) => c,
            Err(_) => {
                out.typed_errors += 1;
                return;
            }
        };
        out.evals += 1;
        let maxv = decls.iter().flat_map(|d| d.vals.iter()).fold(0.0f64, |a, b| a.max(b.abs()));
        let t = 1e-6;
        let ts = 1e-4 + 4e-6 * maxv * decls.len() as f64;
        // 1. every declared consumption / production / output line is present, unaltered
        let mut taken = vec![false; comps.data.len()];
        for d in &decls {
            if !matches!(d.kind, Kind::Used | Kind::Prod | Kind::Out) {
                continue;
            }
            out.compared += 1;
            match (0..comps.data.len()).find(|i| !taken[*i] && matches(&comps.data[*i], d, t)) {
                Some(i) => taken[i] = true,
                None => out.viol("declared_line_kept", &[], "", format!("no component equal to the declared line {d:?}"), "present with identical tags, id, values and comment"),
            }
        }
        // demands add up
        let mut needs: BTreeMap<String, Vec<f64>> = BTreeMap::new();
        for d in decls.iter().filter(|d| d.kind == Kind::Need) {
            add_into(needs.entry(d.srv.clone()).or_default(), &d.vals);
        }
        for (srv, got) in [("ACS", &comps.needs.ACS), ("CAL", &comps.needs.CAL), ("REF", &comps.needs.REF)] {
            out.compared += 1;
            match (needs.get(srv), got) {
                (None, None) => {}
                (Some(e), Some(g)) if veq(g, e, ts) => {}
                (e, g) => out.viol("demand_kept", &[], "", format!("{srv}: {g:?}"), format!("{e:?}")),
            }
        }
        // 2. the extra components are exactly the reference completion (auxiliaries are C06's subject)
        let mut expected: BTreeMap<(String, i32), Vec<f64>> = BTreeMap::new();
        let mut exp_tol: BTreeMap<(String, i32), Vec<f64>> = BTreeMap::new();
        let mut optional: std::collections::BTreeSet<(String, i32)> = std::collections::BTreeSet::new();
        for car in ["EAMBIENTE", "TERMOSOLAR"] {
            let ids: std::collections::BTreeSet<i32> = decls.iter().filter(|d| d.kind == Kind::Used && d.tag == car).map(|d| d.id).collect();
            for id in ids {
                let mut us = vec![];
                let mut pr = vec![];
                for d in decls.iter().filter(|d| d.id == id) {
                    if d.kind == Kind::Used && d.tag == car {
                        add_into(&mut us, &d.vals);
                    }
                    if d.kind == Kind::Prod && d.tag == car {
                        add_into(&mut pr, &d.vals);
                    }
                }
                pr.resize(us.len().max(pr.len()), 0.0);
                us.resize(pr.len(), 0.0);
                let add: Vec<f64> = us.iter().zip(&pr).map(|(u, p)| (u - p).max(0.0)).collect();
                // below the f32 rounding noise of the sums OF THAT STEP there is nothing to complete; in the band around the
                // noise both outcomes are admitted
                let noise: Vec<f64> = us.iter().zip(&pr).map(|(u, p)| 2e-6 * (u + p)).collect();
                if !add.iter().zip(&noise).any(|(x, n)| *x > 4.0 * n + 1e-9) && add.iter().zip(&noise).any(|(x, n)| *x > 0.0 && *x > n / 4.0) {
                    optional.insert((car.to_string(), id));
                }
                exp_tol.insert((car.to_string(), id), noise.iter().map(|n| 1e-5 + 4.0 * n).collect());
                if add.iter().zip(&noise).any(|(x, n)| *x > 4.0 * n + 1e-9) {
                    expected.insert((car.to_string(), id), add);
                    out.nontrivial = true;
                    if pr.iter().any(|x| *x > 0.0) {
                        out.regime("partial_declared_production");
                        if pr.iter().zip(&us).any(|(p, u)| p > u) {
                            out.regime("surplus_at_one_step_shortfall_at_another");
                        }
                    } else {
                        out.regime("missing_production");
                    }
                } else if pr.iter().zip(&us).any(|(p, u)| p > u) {
                    out.regime("surplus_declared_production");
                }
            }
            let prod_ids: std::collections::BTreeSet<i32> = decls.iter().filter(|d| d.kind == Kind::Prod && d.tag == car).map(|d| d.id).collect();
            let use_ids: std::collections::BTreeSet<i32> = decls.iter().filter(|d| d.kind == Kind::Used && d.tag == car).map(|d| d.id).collect();
            if prod_ids.iter().any(|p| !use_ids.contains(p)) && !use_ids.is_empty() {
                out.regime("production_of_another_system");
            }
        }
        let mut extras: BTreeMap<(String, i32), Vec<f64>> = BTreeMap::new();
        for (i, e) in comps.data.iter().enumerate() {
            if taken[i] || e.is_aux() {
                continue;
            }
            match e {
                Energy::Prod(p) if matches!(format!("{}", p.source).as_str(), "EAMBIENTE" | "TERMOSOLAR") => {
                    let key = (format!("{}", p.source), p.id);
                    let vals: Vec<f64> = p.values.iter().map(|x| *x as f64).collect();
                    if extras.contains_key(&key) {
                        out.viol("nothing_else_added", &[], "", format!("two added productions for {key:?}"), "one per system and carrier");
                    }
                    add_into(extras.entry(key).or_default(), &vals);
                }
                other => out.viol("nothing_else_added", &[], "", format!("undeclared component {other:?}"), "only ambient/solar completions"),
            }
        }
        out.compared += 1;
        for (key, e) in &expected {
            match extras.get(key) {
                Some(g) if g.len() == e.len() && g.iter().zip(e).enumerate().all(|(i, (a, b))| (a - b).abs() <= exp_tol.get(key).and_then(|t| t.get(i)).copied().unwrap_or(ts)) => {}
                g => out.viol("completion_is_exact", &[], "", format!("{key:?}: added {g:?}"), format!("max(0, use - declared production of that system) = {e:?}")),
            }
        }
        for (key, g) in &extras {
            if !expected.contains_key(key) && !optional.contains(key) {
                out.viol("completion_is_exact", &[], "", format!("{key:?}: added {g:?}"), "nothing to add for this system");
            }
        }
        // 3. normalizing again changes nothing
        out.evals += 1;
        match comps.clone().normalize() {
            Ok(again) => {
                let (a, b) = (canon(&comps), canon(&again));
                if a != b {
                    let da: Vec<_> = a.iter().filter(|x| !b.contains(x)).cloned().collect();
                    let db: Vec<_> = b.iter().filter(|x| !a.contains(x)).cloned().collect();
                    let feats: Vec<&str> = if comps.data.iter().any(|c| c.is_aux()) { vec!["has_aux"] } else { vec![] };
                    out.viol("normalize_idempotent", &feats, "", format!("second normalization: {db:?}"), format!("first: {da:?}"));
                }
            }
            Err(e) => out.viol("normalize_idempotent", &[], "", format!("second normalization fails: {e}"), "Ok"),
        }
        // 4. histories of library calls: reading part of the file, pushing the remaining component and normalizing again
        //    must reach the data of the whole file (sums by system and tags)
        let whole = crate::hist::table(&comps);
        let tt = crate::hist::table_tol(&comps);
        for v in crate::hist::variants(text, 8) {
            out.evals += 1;
            out.compared += 1;
            out.regime("history_of_calls");
            match &v.comps {
                Ok(c) => {
                    if let Some(d) = crate::hist::table_diff(&crate::hist::table(c), &whole, tt) {
                        out.viol("same_data_after_edit_and_renormalize", &["history"], v.desc.clone(), d, "the data of the whole file read at once");
                    }
                }
                Err(e) => out.viol("same_data_after_edit_and_renormalize", &["history"], v.desc.clone(), format!("error: {e}"), "the data of the whole file read at once"),
            }
        }
    }
}

pub fn env_alphabet(t: usize) -> Vec<Letter> {
    env_alphabet_v(t, false)
}

/// unusual but (mostly) valid spellings of lines: what the parser accepts it must keep, value by value
pub fn spell_letters() -> Vec<Letter> {
    [
        "1, CONSUMO, ACS, EAMBIENTE, 1e1, +3",
        "007, CONSUMO, ACS, EAMBIENTE, 3., .5",
        "+1, PRODUCCION, EAMBIENTE, 2.50, 0.5",
        "1,CONSUMO,ACS,TERMOSOLAR,4,0",
        "1 ,\tCONSUMO ,\tCAL ,\tEAMBIENTE ,\t2 ,\t2",
        "  2,   PRODUCCION,   TERMOSOLAR,   1.000,   0.250   ",
        "1, CONSUMO, ACS, EAMBIENTE, 1, 1 # coment # con # almohadillas",
        "1, CONSUMO, ACS, EAMBIENTE, 1, 1 #",
        "2, SALIDA, ACS, 5, 5 # salida",
        "DEMANDA, ACS, 1e1, 2",
        "1, CONSUMO, ACS, EAMBIENTE, 2, 2,",
        "1, CONSUMO, ACS, EAMBIENTE, , 2",
        "-0, CONSUMO, ACS, EAMBIENTE, 1, 1",
        "1, CONSUMO, ACS, EAMBIENTE, -0, 1",
        "1, CONSUMO, ACS, EAMBIENTE, 0.004, 0.005",
        "1, CONSUMO, ACS, EAMBIENTE, 1.005, 2.675",
        "2147483647, CONSUMO, ACS, EAMBIENTE, 1, 1",
        "#META CTE_AREAREF: 10",
        "vector, tipo, src_dst",
    ]
    .iter()
    .map(|l| Letter::one(Line::Raw(l.to_string())))
    .collect()
}

/// whole systems as composite letters, so that several complete systems interact within the depth bound: a use with its
/// production declared in two lines (systems 1, 2 and 5, both carriers), and a system whose shortfall at one step is
/// 0.01 kWh beside 1 000 000 kWh at another (annual sums in f32 cannot see it, the per-step rule must)
pub fn env_systems() -> Vec<Letter> {
    let mut al = vec![];
    for car in ["EAMBIENTE", "TERMOSOLAR"] {
        for (id, us, p1, p2) in [(1, k(&[10, 4]), k(&[2, 1]), k(&[3, 0])), (2, k(&[10, 10]), k(&[1, 1]), k(&[1, 4])), (5, k(&[6, 0]), k(&[1, 0]), k(&[0, 2]))] {
            al.push(Letter::many(vec![u(Some(id), "ACS", car, &us), p(Some(id), car, &p1), p(Some(id), car, &p2)]));
        }
        al.push(Letter::many(vec![u(Some(3), "ACS", car, &[100_000_000, 1]), p(Some(3), car, &[100_000_000, 0])]));
        al.push(Letter::many(vec![u(Some(4), "CAL", car, &[5, 100_000_000]), p(Some(4), car, &[0, 100_000_000])]));
        al.push(Letter::one(u(Some(1), "CAL", car, &k(&[1, 1]))));
    }
    al.push(Letter::one(u(Some(6), "CAL", "GASNATURAL", &k(&[2, 2]))));
    al
}

/// `small`: values of hundredths of kWh, so that shortfalls of 0.01 kWh and less occur
fn env_alphabet_v(t: usize, small: bool) -> Vec<Letter> {
    let vecs: Vec<Vec<V>> = if small {
        vec![vec![50, 3], vec![51, 2], vec![1, 0], vec![52, 52]]
    } else if t == 2 {
        vec![k(&[1, 0]), k(&[0, 3]), k(&[3, 1]), k(&[2, 2])]
    } else {
        vec![k(&[1]), k(&[3])]
    };
    let mut al = vec![];
    for id in [None, Some(1), Some(2), Some(-1)] {
        for v in &vecs {
            for car in ["EAMBIENTE", "TERMOSOLAR"] {
                al.push(Letter::one(u(id, "ACS", car, v)));
                al.push(Letter::one(p(id, car, v)));
            }
            al.push(Letter::one(u(id, "CAL", "EAMBIENTE", v)));
        }
        al.push(Letter::one(u(id, "NEPB", "EAMBIENTE", &vecs[0])));
    }
    let z = &vecs[vecs.len() - 1];
    al.push(Letter::one(u(Some(1), "CAL", "GASNATURAL", z)));
    al.push(Letter::one(o(1, "ACS", z)));
    al.push(Letter::one(d("ACS", z)));
    al.push(Letter::one(d("ACS", &vecs[0])));
    // cooling demand before heating demand, heating demand in two lines (one per zone)
    al.push(Letter::one(d("REF", &vecs[0])));
    al.push(Letter::one(d("CAL", z)));
    al.push(Letter::one(d("CAL", &vecs[0])));
    // declared lines that are zero at every step (idle systems): declared data all the same
    let zeros: Vec<V> = vec![0; t];
    al.push(Letter::one(u(Some(1), "ACS", "EAMBIENTE", &zeros)));
    al.push(Letter::one(p(Some(1), "EAMBIENTE", &zeros)));
    al.push(Letter::one(u(Some(2), "CAL", "GASNATURAL", &zeros)));
    al.push(Letter::many(vec![a(Some(2), &zeros), o(2, "CAL", &zeros)]));
    al.push(Letter::one(a(Some(1), z)));
    al.push(Letter::one(Line::U { id: Some(2), srv: "ACS", car: "EAMBIENTE", v: z.clone(), com: "BdC 2: SCOP 3 # x" }));
    al.push(Letter::one(Line::P { id: Some(2), src: "EAMBIENTE", v: vecs[0].clone(), com: "declarada" }));
    // a declared production line that carries the comment the program writes on the lines it generates (a file
    // saved by the program and edited afterwards): declared data all the same
    al.push(Letter::one(Line::P { id: Some(1), src: "EAMBIENTE", v: vecs[vecs.len() - 2].clone(), com: "Equilibrado de consumo sin producción declarada" }));
    al.push(Letter::one(Line::P { id: Some(2), src: "TERMOSOLAR", v: vecs[0].clone(), com: "Equilibrado de consumo sin producción declarada" }));
    if t == 2 {
        // a reversible heat pump with auxiliaries: the output lines (also negative ones) are declared data
        al.push(Letter::many(vec![u(Some(9), "CAL", "ELECTRICIDAD", z), u(Some(9), "REF", "ELECTRICIDAD", z), o(9, "CAL", z), o(9, "REF", &z.iter().map(|x| -x).collect::<Vec<_>>()), a(Some(9), z)]));
    }
    if t == 2 && !small {
        // unusual but valid spellings of numbers and ids (two-digit and negative ids sort numerically)
        for raw in [
            "12, CONSUMO, ACS, EAMBIENTE, 1e1, +2.50",
            "12, PRODUCCION, EAMBIENTE, 2.5E0, 00012.000",
            "-7, CONSUMO, CAL, TERMOSOLAR, 3.0000001, -0",
            "-7, PRODUCCION, TERMOSOLAR, .5, 1.",
            "10, CONSUMO, VEN, EAMBIENTE, 1, 1 #",
            "  3 ,CONSUMO,REF,EAMBIENTE,1,1# CTEEPBD_EXCLUYE_SCOP_ACS",
        ] {
            al.push(Letter::one(Line::Raw(raw.to_string())));
        }
    }
    al
}

pub fn run(ctx: &Ctx) -> i32 {
    let shared = Shared::new("C05", ctx);
    let depth = if ctx.quick() { 3 } else { 4 };
    explore(ctx, &format!("ENV wide T=2 depth<={depth}"), Wide { alphabet: env_alphabet(2), bases: alpha::bases(false), max_add: depth, repeat: false }, C05, shared.clone());
    explore(ctx, &format!("ENV wide T=2 small values (0.01-0.52 kWh) depth<={}", depth - 1), Wide { alphabet: env_alphabet_v(2, true), bases: alpha::bases(false), max_add: depth - 1, repeat: false }, C05, shared.clone());
    explore(ctx, &format!("ENV wide T=1 (repeated lines) depth<={depth}"), Wide { alphabet: env_alphabet(1), bases: alpha::bases(false), max_add: depth, repeat: true }, C05, shared.clone());
    {
        let n = if ctx.quick() { 14 } else { 16 };
        explore(ctx, &format!("COMBO: complete 12-step buildings, {n} subsystems absent/present"), Layered { slots: alpha::combo_slots(n), bases: alpha::bases(false) }, C05, shared.clone());
    }
    explore(ctx, "VOCAB: every (service, carrier) pair / cogeneration fuel / production source added to a small building", Wide { alphabet: alpha::vocab_letters(), bases: alpha::vocab_base(), max_add: if ctx.quick() { 1 } else { 2 }, repeat: false }, C05, shared.clone());
    explore(ctx, "SPELL: unusual spellings of ids, values, separators and comments, depth<=3", Wide { alphabet: spell_letters(), bases: alpha::bases(false), max_add: if ctx.quick() { 3 } else { 4 }, repeat: false }, C05, shared.clone());
    explore(ctx, "ENV systems: complete systems (use + production in two lines; 0.01 kWh beside 1e6 kWh) as letters, depth<=4", Wide { alphabet: env_systems(), bases: alpha::bases(false), max_add: if ctx.quick() { 4 } else { 6 }, repeat: false }, C05, shared.clone());
    explore(ctx, "seeded: shipped files + <=2 ENV lines (12 steps)", Wide { alphabet: alpha::seeded_letters(), bases: alpha::shipped_bases(), max_add: if ctx.quick() { 1 } else { 2 }, repeat: false }, C05, shared.clone());
    finish(
        ctx,
        &shared,
        &C05,
        Finish {
            level: "model_checking",
            rule: "ENV model: ids {none,1,2,-1} x {use ACS/CAL/NEPB of EAMBIENTE/TERMOSOLAR, declared production} x vectors + bystander lines (gas, output, demand, auxiliary, comments), all multisets up to the depth; the real parser's output compared line by line with an independent reader of the declared lines and with the reference completion; non-trivial = a completion is required".into(),
            assumptions: strs(&["values compared at 1e-6 (declared) / 1e-4 (sums)", "auxiliary components are excluded here (C06)", "legacy lines without id count as system 0"]),
            required_regimes: strs(&["partial_declared_production", "missing_production", "surplus_declared_production", "surplus_at_one_step_shortfall_at_another", "production_of_another_system"]),
            extra: serde_json::json!({}),
        },
    )
}

pub fn replay(path: &str) -> i32 {
    replay_file("C05", &C05, path)
}
