//! C11 Results scale linearly with energy and inversely with area.

use cteepbd::cte;

use super::{flow_models, strs, FlowSpec};
use crate::cmp::{self, bits_equal, show};
use crate::core::*;
use crate::model::*;
use crate::sched;
use crate::subj;
use crate::tree::{result_flat, Flat};

#[derive(Clone, Copy)]
pub struct C11;

/// paths that do not scale with the energy: ratios and echoed configuration
fn is_ratio(p: &str) -> bool {
    p.starts_with("rer") || p == "k_exp" || p == "arearef" || p.contains(".f_match[") || p.starts_with("misc")
}

fn dhw(ep: &cteepbd::types::EnergyPerformance) -> Result<f32, String> {
    cte::fraccion_renovable_acs_nrb(ep).map_err(|e| subj::err_kind(&e).to_string())
}

const SCALES_EXACT: [f64; 6] = [0.25, 0.125, 0.03125, 8.0, 1024.0, 1048576.0];
const SCALES_TOL: [f64; 3] = [0.1, 3.0, 10.0];

fn min_nonzero(text: &str) -> f64 {
    text.lines().filter_map(cmp::split_line).flat_map(|(_, v, _)| v).filter(|x| *x != 0.0).map(f64::abs).fold(f64::INFINITY, f64::min)
}

fn check_scaled(base_ratios: bool, base: &Flat, base_dhw: &Result<f32, String>, text: &str, c: f64, fs: &str, k: f32, lm: bool, mag: f64, out: &mut Out) {
    let cfg = format!("factors={fs} k_exp={k} load_matching={lm} scale={c}");
    let t2 = cmp::map_values(text, &|v| v.iter().map(|x| x * c).collect());
    let c2 = match subj::parse(&t2) {
        Ok(x) => x,
        Err(e) => {
            out.viol("scaled_file_rejected", &[], &cfg, format!("{e}"), "parses");
            return;
        }
    };
    out.evals += 1;
    let e2 = match subj::eval(&c2, subj::fset(fs), k, 1.0, lm) {
        Ok(e) => e,
        Err(e) => {
            out.viol("scaled_evaluation_fails", &[], &cfg, format!("{e}"), "evaluates");
            return;
        }
    };
    let f2 = result_flat(&e2);
    out.compared += 1;
    let t = subj::tol(mag) * c;
    let ratios = base_ratios && cmp::ratios_ok(&e2, mag * c);
    let d = cmp::cmp_flat_m(base, &f2, t, 2e-5, mag, mag * c, &|p| p.starts_with("misc") || (p.starts_with("rer") && !ratios), &|p, x| if is_ratio(p) { x } else { x * c });
    if !d.is_empty() {
        let energy = d.iter().any(|x| !is_ratio(&x.path));
        let (a, b) = show(&d);
        out.viol(if energy { "energies_scale_linearly" } else { "ratios_unchanged_by_scaling" }, &[], &cfg, format!("scaled building: {b}"), format!("c x original: {a}"));
    }
    let d2 = dhw(&e2);
    match (base_dhw, &d2) {
        (Ok(a), Ok(b)) => {
            if (a - b).abs() > 1e-4 {
                out.viol("dhw_fraction_unchanged_by_scaling", &[], &cfg, format!("{b}"), format!("{a}"));
            }
        }
        (Err(a), Err(b)) if a == b => {}
        (a, b) => out.viol("dhw_fraction_unchanged_by_scaling", &[], &cfg, format!("{b:?}"), format!("{a:?}")),
    }
}

fn check_area(base_ratios: bool, base: &Flat, base_dhw: &Result<f32, String>, comps: &cteepbd::Components, fs: &str, k: f32, lm: bool, mag: f64, c: f64, out: &mut Out) {
    let cfg = format!("factors={fs} k_exp={k} load_matching={lm} area_x={c}");
    out.evals += 1;
    let Ok(e2) = subj::eval(comps, subj::fset(fs), k, c as f32, lm) else {
        out.viol("area_evaluation_fails", &[], &cfg, "Err", "Ok");
        return;
    };
    let f2 = result_flat(&e2);
    out.compared += 1;
    // "changes nothing else": the DHW renewable fraction too
    let same_dhw = match (base_dhw, &dhw(&e2)) {
        (Ok(a), Ok(b)) => (a - b).abs() <= 1e-4 || (a.is_nan() && b.is_nan()),
        (Err(a), Err(b)) => a == b,
        _ => false,
    };
    if !same_dhw {
        out.viol("area_only_rescales_per_m2", &["dhw_fraction"], &cfg, format!("area x{c}: DHW renewable fraction {:?}", dhw(&e2)), format!("{base_dhw:?}"));
    }
    let ratios = base_ratios && cmp::ratios_ok(&e2, mag);
    // the per-m2 figures carry the absolute rounding noise of the totals divided by the area: their absolute
    // tolerance is divided by the area factor too (two passes: everything but balance_m2, then balance_m2)
    let mut d = cmp::cmp_flat_m(base, &f2, subj::tol(mag) * 0.05, 4e-6, mag, mag, &|p| p == "arearef" || p.starts_with("balance_m2.") || (p.starts_with("rer") && !ratios), &|_, x| x);
    d.extend(cmp::cmp_flat_m(base, &f2, subj::tol(mag) * 0.05 / c.min(1.0), 4e-6, mag, mag, &|p| !p.starts_with("balance_m2."), &|_, x| x / c));
    if !d.is_empty() {
        let (a, b) = show(&d);
        out.viol("area_only_rescales_per_m2", &[], &cfg, format!("area x{c}: {b}"), format!("expected: {a}"));
    }
}

impl StateCheck for C11 {
    fn check(&self, text: &str, _l: &[Line], out: &mut Out) {
        let comps = match subj::parse(text) {
            Ok(c) => c,
            Err(_) => {
                out.typed_errors += 1;
                return;
            }
        };
        if comps.data.is_empty() {
            return;
        }
        let minv = min_nonzero(text);
        for (fs, k, lm) in [("PENINSULA", 0.0f32, false), ("SKEW+COGEN", 1.0, true)] {
            let f = subj::fset(fs);
            out.evals += 1;
            let Ok(e) = subj::eval(&comps, f, k, 1.0, lm) else {
                out.typed_errors += 1;
                continue;
            };
            let base = result_flat(&e);
            let base_dhw = dhw(&e);
            if base_dhw.is_ok() {
                out.regime("dhw_fraction_defined");
            }
            let mag = subj::magnitude(&comps, f);
            let base_ratios = cmp::ratios_ok(&e, mag);
            if e.balance.exp.an > 0.0 {
                out.nontrivial = true;
            }
            if e.balance_cr.values().any(|b| b.exp.an > 0.0 && b.exp.an <= 0.02) {
                out.regime("tiny_export");
            }
            for c in SCALES_EXACT.iter().chain(SCALES_TOL.iter()) {
                // stay inside the property's domain: values zero or >= 0.01 kWh
                if minv * c < 0.01 - 1e-9 {
                    continue;
                }
                out.regime(format!("scale:{c}"));
                check_scaled(base_ratios, &base, &base_dhw, text, *c, fs, k, lm, mag, out);
            }
            for c in [0.5, 4.0, 3.0, 0.125, 0.0078125, 1000.003] {
                check_area(base_ratios, &base, &base_dhw, &comps, fs, k, lm, mag, c, out);
            }
        }
        // bit-exact clause (power-of-two scaling under identical hash keys), small states only
        if text.lines().count() <= 2 && minv * 0.25 >= 0.01 {
            let key = (0xC11u64 << 44, sched::K1);
            let run = |c: f64| -> Option<Flat> {
                let t2 = cmp::map_values(text, &|v| v.iter().map(|x| x * c).collect());
                sched::isolated(key, || {
                    let c2 = subj::parse(&t2).ok()?;
                    let e = subj::eval(&c2, subj::fset("PENINSULA"), 0.5, 1.0, true).ok()?;
                    Some(result_flat(&e))
                })
            };
            if let Some(b0) = run(1.0) {
                out.regime("bit_exact_isolated");
                for c in [0.25, 8.0, 1024.0] {
                    out.evals += 1;
                    if let Some(b1) = run(c) {
                        // scale the base exactly and compare bits
                        let scaled: Flat = b0
                            .iter()
                            .map(|(p, l)| {
                                let l2 = match l {
                                    crate::tree::Leaf::Num(x) if !is_ratio(p) => crate::tree::Leaf::Num(((*x as f32) * c as f32) as f64),
                                    o => o.clone(),
                                };
                                (p.clone(), l2)
                            })
                            .collect();
                        let d = bits_equal(&scaled, &b1, &|p| p.starts_with("misc"));
                        out.compared += 1;
                        if !d.is_empty() {
                            let (a, b) = show(&d);
                            out.viol("power_of_two_scaling_bit_exact", &[], format!("factors=PENINSULA k_exp=0.5 load_matching=true scale={c} isolated_key={key:?}"), b, a);
                        }
                    }
                }
            }
        }
    }
}

fn dhw_letters() -> Vec<Letter> {
    vec![
        Letter::one(d("ACS", &k(&[4, 4]))),
        Letter::one(d("ACS", &k(&[1, 3]))),
        Letter::one(u(Some(5), "ACS", "BIOMASA", &k(&[3, 1]))),
        Letter::one(u(Some(5), "ACS", "RED1", &k(&[1, 1]))),
        // a DHW building: biomass boiler with declared output, solar thermal, and a small electric heater
        // (a few kWh a year: far below any per-m2 resolution of a large building)
        Letter::many(vec![d("ACS", &k(&[100, 100])), u(Some(6), "ACS", "BIOMASA", &k(&[100, 100])), o(6, "ACS", &k(&[60, 60])), u(Some(7), "ACS", "TERMOSOLAR", &k(&[30, 30])), u(Some(8), "ACS", "ELECTRICIDAD", &[150, 150])]),
    ]
}

/// DHW12: monthly DHW buildings with irregular hundredths (sums taken in different orders differ in their last bits): a
/// biomass boiler whose only electricity is its auxiliaries (in one line, in two lines), with and without declared output,
/// and a heat pump with PV and auxiliaries
fn dhw12_bases() -> Vec<(String, String)> {
    let ser = |a: f64, b: u64, c: u64| -> String { (0..12u64).map(|i| format!("{:.2}", a + ((i * b + c) % 23) as f64 * 0.37 + ((i * 7 + c) % 100) as f64 / 100.0)).collect::<Vec<_>>().join(", ") };
    let dem = ser(349.0, 5, 3);
    let bio = ser(438.8, 11, 7);
    let out = ser(340.0, 5, 3);
    let aux1 = ser(21.15, 3, 1);
    let aux2 = ser(2.05, 7, 2);
    let el = ser(120.0, 5, 3);
    let amb = ser(240.0, 5, 3);
    let pv = ser(60.0, 13, 5);
    vec![
        ("biomass DHW, auxiliaries in one line".to_string(), format!("DEMANDA, ACS, {dem}\n1, CONSUMO, ACS, BIOMASA, {bio}\n1, AUX, {aux1}\n")),
        ("biomass DHW, auxiliaries in two lines".to_string(), format!("DEMANDA, ACS, {dem}\n1, CONSUMO, ACS, BIOMASA, {bio}\n1, AUX, {aux1}\n1, AUX, {aux2}\n")),
        ("biomass DHW with declared output beside gas, auxiliaries".to_string(), format!("DEMANDA, ACS, {dem}\n1, CONSUMO, ACS, BIOMASA, {bio}\n1, SALIDA, ACS, {out}\n1, AUX, {aux1}\n2, CONSUMO, ACS, GASNATURAL, {aux2}\n")),
        ("heat pump DHW with PV and auxiliaries".to_string(), format!("DEMANDA, ACS, {dem}\n1, CONSUMO, ACS, ELECTRICIDAD, {el}\n1, CONSUMO, ACS, EAMBIENTE, {amb}\n1, AUX, {aux2}\n0, PRODUCCION, EL_INSITU, {pv}\n")),
    ]
}

pub fn run(ctx: &Ctx) -> i32 {
    let shared = Shared::new("C11", ctx);
    explore(ctx, "DHW12: monthly DHW buildings with irregular hundredths, auxiliaries in one and two lines", Wide { alphabet: vec![], bases: dhw12_bases(), max_add: 0, repeat: false }, C11, shared.clone());
    flow_models(ctx, &shared, C11, FlowSpec { quick_depth: 2, thorough_depth: 3, extra: dhw_letters(), deep: true, heavy_oracle: true, seeded: true, t3: false, valuesets: false });
    // values near the code's absolute thresholds (0.01 kWh, 1e-3): hundredths of kWh
    let mut small = crate::alpha::flow(2, &[0, 1, 3], crate::alpha::Rich::Base);
    small.extend(dhw_letters());
    explore(ctx, "FLOW wide T=2 small values {0,0.01,0.03} kWh", Wide { alphabet: small, bases: crate::alpha::bases(false), max_add: if ctx.quick() { 2 } else { 3 }, repeat: false }, C11, shared.clone());
    if !ctx.quick() {
        let mut dec = crate::alpha::flow(2, &[0, 7, 3333], crate::alpha::Rich::Base);
        dec.extend(dhw_letters());
        explore(ctx, "FLOW wide T=2 decimal {0,0.07,33.33}", Wide { alphabet: dec, bases: crate::alpha::bases(false), max_add: 3, repeat: false }, C11, shared.clone());
    }
    finish(
        ctx,
        &shared,
        &C11,
        Finish {
            level: "model_checking",
            rule: "every FLOW(+DHW) state x 2 configs x scale factors {2^-2,2^-3,2^-5,2^3,2^10,2^20 | 0.1,3,10} applied to the file text (skipped when a value would fall below 0.01 kWh) x area factors {0.5,4,3}; value sets: integers and hundredths of kWh (near the code's absolute thresholds); non-trivial = state exports energy".into(),
            assumptions: strs(&["tolerance 2e-5*magnitude*c (+2e-5 relative); ratios 1e-4", "bit-exact power-of-two clause on states with <= 2 lines under identical forced hash keys"]),
            required_regimes: strs(&["dhw_fraction_defined", "tiny_export", "scale:1024", "scale:0.1", "bit_exact_isolated"]),
            extra: serde_json::json!({}),
        },
    )
}

pub fn replay(path: &str) -> i32 {
    replay_file("C11", &C11, path)
}
