//! E2: ownership of the one source of run-to-run nondeterminism of the subject — the SipHash keys
//! of every std HashMap/HashSet — through an interposed `getrandom` (std resolves it via a weak,
//! interposable symbol). See DESIGN.md §2.2.
//!
//! * every thread gets *known* keys `(k0 = n << 40, k1 = K1)`; the i-th `RandomState` a thread
//!   builds uses `(k0 + i, k1)`;
//! * `next_key()` infers, on the current thread, the key pair the NEXT map will get (inline mode);
//! * `isolated(key, f)` runs `f` on a fresh thread whose first map gets exactly `key` (replay mode).

use std::cell::Cell;
use std::hash::BuildHasher;
use std::sync::atomic::{AtomicU64, Ordering};

pub const K1: u64 = 0x9E37_79B9_7F4A_7C15;

static COUNTER: AtomicU64 = AtomicU64::new(1);
static SEED_OFFSET: AtomicU64 = AtomicU64::new(0);
pub static GETRANDOM_CALLS: AtomicU64 = AtomicU64::new(0);

thread_local! {
    static FORCED: Cell<Option<(u64, u64)>> = const { Cell::new(None) };
    static BASE: Cell<Option<(u64, u64)>> = const { Cell::new(None) };
    static LAST_I: Cell<u64> = const { Cell::new(0) };
}

pub type Key = (u64, u64);

pub fn set_seed(seed: u64) {
    SEED_OFFSET.store(seed.wrapping_mul(1 << 20), Ordering::SeqCst);
}

/// Interposed libc symbol. std's `hashmap_random_keys` asks for 16 bytes.
///
/// # Safety
/// Called by std / libc users with a valid buffer of `len` bytes.
#[no_mangle]
pub unsafe extern "C" fn getrandom(buf: *mut u8, len: usize, _flags: u32) -> isize {
    GETRANDOM_CALLS.fetch_add(1, Ordering::Relaxed);
    let (k0, k1) = match FORCED.with(|f| f.take()) {
        Some(k) => k,
        None => {
            let n = COUNTER.fetch_add(1, Ordering::SeqCst) + SEED_OFFSET.load(Ordering::SeqCst);
            (n << 40, K1)
        }
    };
    if len == 16 {
        BASE.with(|b| {
            if b.get().is_none() {
                b.set(Some((k0, k1)));
                LAST_I.with(|l| l.set(0));
            }
        });
    }
    let mut bytes = [0u8; 16];
    bytes[..8].copy_from_slice(&k0.to_le_bytes());
    bytes[8..].copy_from_slice(&k1.to_le_bytes());
    for i in 0..len {
        // deterministic stream for any other request size
        *buf.add(i) = bytes[i % 16] ^ ((i / 16) as u8);
    }
    len as isize
}

#[inline]
fn sipround(v0: &mut u64, v1: &mut u64, v2: &mut u64, v3: &mut u64) {
    *v0 = v0.wrapping_add(*v1);
    *v1 = v1.rotate_left(13);
    *v1 ^= *v0;
    *v0 = v0.rotate_left(32);
    *v2 = v2.wrapping_add(*v3);
    *v3 = v3.rotate_left(16);
    *v3 ^= *v2;
    *v0 = v0.wrapping_add(*v3);
    *v3 = v3.rotate_left(21);
    *v3 ^= *v0;
    *v2 = v2.wrapping_add(*v1);
    *v1 = v1.rotate_left(17);
    *v1 ^= *v2;
    *v2 = v2.rotate_left(32);
}

/// SipHash-1-3 of the 8-byte message `m` (what `RandomState::hash_one(m: u64)` computes)
pub fn sip13_u64(k0: u64, k1: u64, m: u64) -> u64 {
    let mut v0 = k0 ^ 0x736f6d6570736575;
    let mut v1 = k1 ^ 0x646f72616e646f6d;
    let mut v2 = k0 ^ 0x6c7967656e657261;
    let mut v3 = k1 ^ 0x7465646279746573;
    // one full word
    v3 ^= m;
    sipround(&mut v0, &mut v1, &mut v2, &mut v3);
    v0 ^= m;
    // final block: length (8) in the top byte
    let b: u64 = 8u64 << 56;
    v3 ^= b;
    sipround(&mut v0, &mut v1, &mut v2, &mut v3);
    v0 ^= b;
    v2 ^= 0xff;
    sipround(&mut v0, &mut v1, &mut v2, &mut v3);
    sipround(&mut v0, &mut v1, &mut v2, &mut v3);
    sipround(&mut v0, &mut v1, &mut v2, &mut v3);
    v0 ^ v1 ^ v2 ^ v3
}

/// Key pair that the NEXT `RandomState::new()` of this thread will get (consumes one state).
/// `None` if the keys of this thread cannot be inferred (then callers fall back to isolated mode).
pub fn next_key() -> Option<Key> {
    let rs = std::collections::hash_map::RandomState::new();
    let h = rs.hash_one(0u64);
    let (k0, k1) = BASE.with(|b| b.get())?;
    let start = LAST_I.with(|l| l.get());
    let limit = start + 4_000_000;
    let mut i = start;
    while i < limit {
        if sip13_u64(k0.wrapping_add(i), k1, 0) == h {
            LAST_I.with(|l| l.set(i + 1));
            return Some((k0.wrapping_add(i + 1), k1));
        }
        i += 1;
    }
    None
}

/// Run `f` on a fresh thread whose first hash map gets exactly `key`.
pub fn isolated<R: Send, F: FnOnce() -> R + Send>(key: Key, f: F) -> R {
    std::thread::scope(|s| {
        std::thread::Builder::new()
            .stack_size(8 << 20)
            .spawn_scoped(s, move || {
                FORCED.with(|c| c.set(Some(key)));
                f()
            })
            .expect("spawn isolated thread")
            .join()
            .expect("isolated thread panicked")
    })
}

/// Self test run at start-up: inference works and isolated replay reproduces iteration order.
pub fn self_test() -> Result<(), String> {
    use std::collections::HashMap;
    let order = || -> Vec<u32> {
        let mut m = HashMap::new();
        for k in [11u32, 22, 33, 44, 55, 66] {
            m.insert(k, ());
        }
        m.keys().copied().collect()
    };
    let mut distinct = std::collections::BTreeSet::new();
    for round in 0..24 {
        let key = next_key().ok_or("key inference failed")?;
        let inline = order();
        let iso1 = isolated(key, order);
        let iso2 = isolated(key, order);
        if inline != iso1 || iso1 != iso2 {
            return Err(format!(
                "round {round}: isolated replay diverged: inline {:?} iso {:?} {:?} key {:?}",
                inline, iso1, iso2, key
            ));
        }
        distinct.insert(inline);
    }
    if distinct.len() < 3 {
        return Err(format!("only {} distinct orders in 24 schedules", distinct.len()));
    }
    Ok(())
}
