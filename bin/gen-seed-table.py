
import json,glob,os,re
# per (seed, check) the last line wins; a seed is caught by every check whose latest run exited 1
per={}
for l in open('/verif/seeded/detection.jsonl'):
    try: r=json.loads(l)
    except: continue
    per.setdefault(r['seed'],{})[r.get('check','?')]=r
det={}
for seed,checks in per.items():
    hits=[r for r in checks.values() if r.get('exit')==1]
    own=[r for c,r in checks.items() if c==seed.split('-')[0]]
    if hits:
        # the check of the seed's own property first
        hits.sort(key=lambda r: (r.get('check')!=seed.split('-')[0], r.get('check')))
        r=dict(hits[0]); r['check']=', '.join(h['check'] for h in hits)
        det[seed]=r
    else:
        det[seed]=(own or list(checks.values()))[-1]
ver={}
if os.path.exists('/verif/seeded/verify-results.jsonl'):
    for l in open('/verif/seeded/verify-results.jsonl'):
        try: r=json.loads(l); ver[r['name']]=r
        except: pass
rows=["| seed | what it does (sub-agent's summary) | confirmed | caught by (quick) | clauses |","|---|---|---|---|---|"]
for d in sorted(glob.glob('/verif/seeded/C*-*')):
    n=os.path.basename(d)
    try: m=json.load(open(d+'/meta.json'))
    except Exception: m={}
    summ=(m.get('summary') or '')[:150].replace('|','/').replace('\n',' ')
    v=ver.get(n,{})
    conf='yes' if v.get('demo_without_change')=='passes' and v.get('applies') and v.get('suite_targets_failed_with_change')==0 and v.get('demo_with_change')=='fails' else ('?' if not v else 'NO')
    r=det.get(n,{})
    caught = (r.get('check','')+' (exit 1)') if r.get('exit')==1 else ('**missed**' if 'exit' in r else r.get('error','not run'))
    cl=(r.get('clauses') or '').replace('clause=','').strip()
    rows.append(f"| {n} | {summ} | {conf} | {caught} | {cl} |")
    # record in meta.json
    m['verified_in_scratch_worktree']=v
    m['detection']=r
    json.dump(m,open(d+'/meta.json','w'),indent=1,ensure_ascii=False)
table="<!-- SEEDTABLE:BEGIN -->\n"+"\n".join(rows)+"\n<!-- SEEDTABLE:END -->"
p='/verif/DESIGN.md'; s=open(p).read()
if 'SEEDTABLE:BEGIN' in s:
    s=re.sub(r"<!-- SEEDTABLE:BEGIN -->.*?<!-- SEEDTABLE:END -->",lambda m: table,s,flags=re.S)
else:
    s=s.replace('SEEDTABLE',table,1)
open(p,'w').write(s)
print(len(rows)-2,'seeds;','missed:',[k for k,r in det.items() if r.get('exit')!=1])
