#!/usr/bin/env python3
"""Rebuilds the table of DESIGN.md section 8.5 from the evidence files and the detection log."""
import json, os, re, glob
root = '/verif'
per = {}
for l in open(f'{root}/seeded/detection.jsonl'):
    try: r = json.loads(l)
    except Exception: continue
    per.setdefault(r.get('check', '?'), {})[r['seed']] = r.get('exit')
rows = ["| check | quick: models / states / executions / wall | thorough: models / states / executions / wall | deepest thorough model | seeded changes reported |", "|---|---|---|---|---|"]
tot = {'quick': 0.0, 'thorough': 0.0}
for i in range(1, 20):
    cid = f'C{i:02d}'
    cells = []
    deepest = ''
    for tier in ('quick', 'thorough'):
        f = f'{root}/evidence/{tier}/{cid}.json'
        if not os.path.exists(f):
            cells.append('—'); continue
        d = json.load(open(f)); c = d['coverage']
        ms = c.get('models', [])
        tot[tier] += d.get('wall_s', 0)
        cells.append(f"{len(ms)} / {c.get('states', 0):,} / {c.get('evaluations', 0):,} / {d.get('wall_s', 0):.0f} s" + ('' if c.get('exhaustive') else ' (capped)'))
        if tier == 'thorough' and ms:
            m = max(ms, key=lambda m: m.get('unique_states', 0))
            deepest = f"{m['model'][:70]} ({m.get('unique_states', 0):,} states)"
    hits = sum(1 for s, e in per.get(cid, {}).items() if e == 1)
    rows.append(f"| {cid} | {cells[0]} | {cells[1]} | {deepest} | {hits} |")
rows.append(f"| all | {tot['quick']:.0f} s | {tot['thorough']:.0f} s ({tot['thorough']/3600:.1f} h) | | |")
table = "<!-- COSTTABLE:BEGIN -->\n" + "\n".join(rows) + "\n<!-- COSTTABLE:END -->"
p = f'{root}/DESIGN.md'; s = open(p).read()
s = re.sub(r"<!-- COSTTABLE:BEGIN -->.*?<!-- COSTTABLE:END -->", lambda m: table, s, flags=re.S)
open(p, 'w').write(s)
print('\n'.join(rows[-3:]))
